#!/bin/sh
exit 0
