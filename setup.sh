#!/bin/sh
# Offline setup: compile the TLC override of BigNat and build the harness against /repo.
set -e
cd "$(dirname "$0")"
mkdir -p tlc/classes work evidence
javac -cp /opt/veriftools/tla/tla2tools.jar -d tlc/classes tlc/BigNat.java
[ -f harness/Cargo.lock ] || cp /repo/Cargo.lock harness/Cargo.lock
(cd harness && CARGO_NET_OFFLINE=true cargo build --release --offline)
# warm the script-generation caches (TLC evaluates the specification only; nothing here touches the
# code under test beyond building the harness)
./check pregen
echo setup ok
