#!/usr/bin/env python3
"""Regenerate MANIFEST.json from checks.py (the property table) and properties.jsonl."""
import json, os, sys, subprocess
ROOT = os.path.dirname(os.path.dirname(os.path.abspath(__file__)))
sys.path.insert(0, ROOT)
from checks import PROPS, TEXT
props = [json.loads(l) for l in open(os.path.join(ROOT, "properties.jsonl"))]
hooks = subprocess.run(["git", "-C", "/repo", "log", "--format=%H %s"], capture_output=True, text=True).stdout.splitlines()
hook_commits = [l.split()[0] for l in hooks if "verif hooks" in l]
m = {
    "version": 1,
    "setup_cmd": "./setup.sh",
    "hooks": {
        "guard": "pairing_plus_verif",
        "enable": "rustflags --cfg pairing_plus_verif in /verif/harness/.cargo/config.toml (the harness is the only build that sets it)",
        "baseline_off_cmd": "cd /repo && cargo test --workspace --no-fail-fast --offline",
        "source_commits": hook_commits,
        "add_only": True,
    },
    "engines": [
        {"name": "TLC + BigNat override", "path": "/verif/spec", "serves_properties": sorted(PROPS),
         "kind_free_text": "explicit TLA+ specification (mathematics tier + state machines), model checked with TLC; trace validation of every recorded library call by TLC (Trace.tla)"},
        {"name": "harness", "path": "/verif/harness", "serves_properties": sorted(PROPS),
         "kind_free_text": "Rust transport harness: executes TLC-generated scripts and seeded workloads against /repo's working tree, logs raw results as ndjson; contains no expected values"},
    ],
    "checks": [],
    "not_applicable": [],
    "notes": "All checks: ./check <id> --tier quick|thorough.  exit 0 ok / 1 VIOLATION / 2 tool error.  See DESIGN.md.",
}
for p in props:
    pid = p["id"]
    if pid not in PROPS:
        m["not_applicable"].append({"property_id": pid, "reason": TEXT.get(pid, {}).get("na", "check not built yet")})
        continue
    t = TEXT[pid]
    m["checks"].append({
        "property_id": pid,
        "quick_cmd": "./check %s --tier quick" % pid,
        "thorough_cmd": "./check %s --tier thorough" % pid,
        "evidence_file": "/verif/evidence/%s.json" % pid,
        "replay_cmd_template": "./check %s --replay {path}" % pid,
        "engine": "TLC + BigNat override",
        "level_claimed": {"category": PROPS[pid]["level"], "text": t["level"], "design_ref": t.get("ref", "DESIGN.md section 6/" + pid)},
        "level_note": t.get("note", "Trusted: TLC/SANY; java.math.BigInteger behind the BigNat operators (cross-checked against their TLA+ definitions); CommunityModules Json/IOUtils; the harness's transport code; the author's transcription of the mathematics into TLA+, anchored as described in DESIGN.md 4.3. Bounded: enumerated classes and sampled members, not all 2^381 inputs."),
        "technique": t["technique"],
    })
json.dump(m, open(os.path.join(ROOT, "MANIFEST.json"), "w"), indent=1)
print("checks:", len(m["checks"]), "n/a:", len(m["not_applicable"]))
