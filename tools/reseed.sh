#!/bin/bash
# usage: reseed.sh <seed-id> <property> [tier]  - re-run our check on an already confirmed seeded change
set -u
id=$1; prop=$2; tier=${3:-quick}
dst=/verif/seeded/$id
cd /repo && git apply $dst/patch.diff || { echo "patch does not apply to /repo"; exit 2; }
cd /verif && ./check $prop --tier $tier > $dst/recheck.log 2>&1; chk=$?
cd /repo && git checkout -- . && git status --short | head -3
echo "$id recheck_exit=$chk"; grep -E "VIOLATION|KNOWN|TOOL-ERROR|\] (OK|FAILED)" $dst/recheck.log | head -3
