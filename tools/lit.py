#!/usr/bin/env python3
"""Print TLA+ BigNat literals.  usage: lit.py hex 0x1a01... | dec 1234..."""
import sys
def hexlit(n):
    h='%x'%n
    h='0'*((-len(h))%4)+h
    return 'Hex(<<'+', '.join('\\h'+h[i:i+4] for i in range(0,len(h),4))+'>>)'
def declit(n):
    return 'Dec(<<'+','.join(str(n))+'>>)'
if __name__=='__main__':
    k,v=sys.argv[1],int(sys.argv[2],0)
    print(hexlit(v) if k=='hex' else declit(v))
