#!/bin/bash
# usage: seed.sh <seed-id> <property> <worktree>   - confirm a sub-agent's seeded change and run our check on it
# 1. in the worktree: demo fails with the change, passes without; pinned suite (lib tests, 3 slow skipped) passes with it
# 2. apply patch to /repo, run ./check <property>, undo
set -u
id=$1; prop=$2; wt=$3
dst=/verif/seeded/$id; mkdir -p $dst
cp $wt/patch.diff $dst/patch.diff
cp $wt/tests/demo.rs $dst/demo.rs 2>/dev/null || cp $wt/tests/*.rs $dst/ 2>/dev/null
cd $wt
echo "== demo with change"; RUSTFLAGS="--cfg pairing_plus_verif --check-cfg cfg(pairing_plus_verif)" cargo test --release --offline --test demo > $dst/demo_with.log 2>&1; with=$?
git stash push -q -- src; echo "== demo without change"; RUSTFLAGS="--cfg pairing_plus_verif --check-cfg cfg(pairing_plus_verif)" cargo test --release --offline --test demo > $dst/demo_without.log 2>&1; without=$?; git stash pop -q
echo "== suite with change"; cargo test --release --offline --lib -- --skip bls12_engine_tests --skip g2_curve_tests --skip fq12_field_tests > $dst/suite.log 2>&1; suite=$?
echo "demo_with=$with demo_without=$without suite=$suite"; grep "test result" $dst/suite.log | head -2
cd /repo && git apply $dst/patch.diff || { echo "patch does not apply to /repo"; exit 2; }
cd /verif && ./check $prop --tier quick > $dst/check.log 2>&1; chk=$?
cd /repo && git checkout -- . && git status --short | head -3
echo "check_exit=$chk"; grep -E "VIOLATION|KNOWN|TOOL-ERROR|\] (OK|FAILED)" $dst/check.log | head -5
python3 - <<PY
import json
json.dump({"seed": "$id", "property": "$prop", "demo_fails_with_change": $with != 0, "demo_passes_without": $without == 0,
           "suite_passes_with_change": $suite == 0, "check_exit": $chk, "detected": $chk == 1,
           "ran": ["cargo test --release --offline --test demo (with / without the change)",
                   "cargo test --release --offline --lib -- --skip bls12_engine_tests --skip g2_curve_tests --skip fq12_field_tests",
                   "git -C /repo apply patch.diff; ./check $prop --tier quick; git -C /repo checkout -- ."]},
          open("$dst/meta.json", "w"), indent=1)
PY
