#!/usr/bin/env python3
"""Regenerate the numeric table of DESIGN.md section 6 from checks.py and the committed evidence."""
import json, re, sys, os
sys.path.insert(0, os.path.join(os.path.dirname(__file__), ".."))
import checks
rows = ["| id | model checking (distinct states) | generators (scripts) | workloads | validated events | class tags | traces | wall (quick) |",
        "|---|---|---|---|---|---|---|---|"]
for p in sorted(checks.PROPS):
    e = json.load(open("/verif/evidence/%s.json" % p))
    c = e["coverage"]
    mc = {}
    for m in c.get("model_checking", []):
        mc[m["model"]] = mc.get(m["model"], 0) + m["distinct_states"]
    mcs = ", ".join("%s (%s)" % (k, v) for k, v in mc.items()) or "-"
    gens = ", ".join("%s (%d)" % (g["generator"], g["scripts"]) for g in c.get("generators", [])) or "-"
    wl = ", ".join(c.get("workloads", [])) or "-"
    rows.append("| %s | %s | %s | %s | %d | %d | %d | %d s |" % (p, mcs, gens, wl, c["evaluations"], len(c.get("classes", {})),
                                                          c["traces_validated_against_impl"], round(e["wall_s"])))
table = "\n".join(rows)
d = open("/verif/DESIGN.md").read()
a, b = "<!-- table6:begin -->", "<!-- table6:end -->"
if a in d:
    d = d[:d.index(a) + len(a)] + "\n" + table + "\n" + d[d.index(b):]
    open("/verif/DESIGN.md", "w").write(d)
print(table)
