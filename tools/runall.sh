#!/bin/sh
# run every registered quick (or $1) check, validate the evidence files
cd "$(dirname "$0")/.."
tier=${1:-quick}
mkdir -p work
rc=0
for p in $(python3 -c "import json;print(' '.join(c['property_id'] for c in json.load(open('MANIFEST.json'))['checks']))"); do
  ./check $p --tier $tier > work/runall-$p.log 2>&1; r=$?
  tail -1 work/runall-$p.log
  [ $r -ne 0 ] && { echo "  exit $r"; rc=1; }
done
python3-vt - <<'PY'
import json,jsonschema,glob
sch=json.load(open('/root/.vp/EVIDENCE.schema.json'))
for f in sorted(glob.glob('/verif/evidence/*.json')):
    try: jsonschema.validate(json.load(open(f)),sch)
    except Exception as e: print('INVALID',f,str(e)[:200])
print('evidence validated')
PY
exit $rc
