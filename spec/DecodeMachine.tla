---------------------------- MODULE DecodeMachine ----------------------------
(* The staged decoder as a machine (one validation per step) over the class records of      *)
(* DecodeStages; model checked over all consistent class records (MC_Decode).                *)
EXTENDS DecodeStages

VARIABLES inp, at, verdict
vars == <<inp, at, verdict>>

Init == inp \in {r \in Classes : Consistent(r)} /\ at = 1 /\ verdict = "running"

Step ==
  /\ verdict = "running"
  /\ IF at > Len(Stages) THEN verdict' = "ok" /\ UNCHANGED at
     ELSE IF AppliesR(inp, Stages[at]) /\ ~PassesR(inp, Stages[at])
          THEN verdict' = ErrOf(Stages[at]) /\ UNCHANGED at
          ELSE at' = at + 1 /\ UNCHANGED verdict
  /\ UNCHANGED inp
Next == Step \/ (verdict # "running" /\ UNCHANGED vars)
Spec == Init /\ [][Next]_vars

(* the machine reports the first failed validation *)
FirstFailureWins == verdict # "running" => verdict = FirstFailR(inp, 1)
(* acceptance iff every applicable validation holds *)
AcceptIff == verdict = "ok" <=> (verdict # "running" /\ \A i \in 1..Len(Stages) : AppliesR(inp, Stages[i]) => PassesR(inp, Stages[i]))
(* the unchecked variant differs from the checked one only by dropping curve (uncompressed) / subgroup errors *)
UncheckedRelation ==
  LET c == [inp EXCEPT !.checked = TRUE]  u == [inp EXCEPT !.checked = FALSE]
      vc == FirstFailR(c, 1)  vu == FirstFailR(u, 1)
  IN /\ (vc \in {"ok", "UnexpectedCompressionMode", "UnexpectedInformation", "Coordinate"} => vu = vc)
     /\ (vc = "NotInSubgroup" => vu = "ok")
     /\ (vc = "NotOnCurve" => vu = (IF inp.form = "c" THEN "NotOnCurve" ELSE "ok"))
(* an accepted checked input is a subgroup point or the identity *)
AcceptedIsValid == (verdict = "ok" /\ inp.checked /\ ~inp.inf) => (inp.curve /\ inp.sub /\ inp.range)
=============================================================================
