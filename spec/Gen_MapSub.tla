------------------------------ MODULE Gen_MapSub ------------------------------
(* Script generation (spec -> impl), split off Gen_Map because the polynomial root finding is slow. *)
EXTENDS JMap, PolyFq, Json, IOUtils, SequencesExt
OutDir == IOEnv.OUT
(***************************************************************************)
(* G1 inputs u whose image iso(sswu(u)) ALREADY lies in the order-r        *)
(* subgroup (a shortcut "nothing to clear" would return it unchanged       *)
(* instead of multiplying by h_eff).  For a subgroup point S = [k]g1:      *)
(*  - its preimages under the 11-isogeny have abscissae the Fq-roots of    *)
(*    xnum(X) - S.x xden(X) (PolyFq), and ordinate S.y yden/ynum;          *)
(*  - a preimage u of a point (x, y) of E1' under simplified SWU has       *)
(*    s = Z u^2 a root of  s^2 + s - 1/c = 0 (x is the first candidate,    *)
(*    c = -A x/B - 1)  or of  s^2 + (1-d) s + (1-d) = 0, d = -A x/B (x is  *)
(*    the second candidate), u = +-sqrt(s/Z) with sgn0(u) = sgn0(y).       *)
(* Every u found is certified by evaluating the specification's maps.      *)
(***************************************************************************)
PolySub2(a, b, c) == PSub(a, PScale(b, c))                     \* a - c b
IsoPreX(Sx) == RootsOf(DistinctRootPart(PolySub2(Iso1XNUM, Iso1XDEN, Sx)), 1)
IsoPre(S) == \* points P of E1' with Iso(P) = S
  LET xs == IsoPreX(S[1]) IN
  FlattenSeq([i \in 1..Len(xs) |->
     LET x == xs[i]
         yn == PolyEval("G1", Iso1YNUM, x)  yd == PolyEval("G1", Iso1YDEN, x)
     IN IF yn = Zero THEN <<>>
        ELSE LET P == <<x, FqMul(S[2], FqMul(yd, FqInv(yn)))>> IN
             IF E1p!OnCurve(P) /\ Iso("G1", P) = S THEN <<P>> ELSE <<>>])
QuadRoots(b, c) == \* roots of s^2 + b s + c over Fq
  LET disc == FqSub(FqSqr(b), FqMul(Four, c))  r == FqSqrtCand(disc)  h == FqInv(Two) IN
  IF FqSqr(r) # disc THEN <<>>
  ELSE << FqMul(FqSub(r, b), h), FqMul(FqSub(FqNeg(r), b), h) >>
SwuPre(P) == \* u with SSWU("G1", u) = P
  LET z == SwuZ("G1")
      d == FqMul(FqNeg(E1pA), FqMul(P[1], FqInv(E1pB)))           \* -A x / B
      c == FqSub(d, One)
      ss == (IF c = Zero THEN <<>> ELSE QuadRoots(One, FqNeg(FqInv(c)))) \o QuadRoots(FqSub(One, d), FqSub(One, d))
  IN FlattenSeq([i \in 1..Len(ss) |->
       LET w == FqMul(ss[i], FqInv(z))  u0 == FqSqrtCand(w) IN
       IF FqSqr(u0) # w THEN <<>>
       ELSE LET u == IF FpSgn0(u0) = FpSgn0(P[2]) THEN u0 ELSE FqNeg(u0) IN
            IF SSWU("G1", u) = P THEN <<u>> ELSE <<>>])
RECURSIVE InSubInputs(_,_,_)
InSubInputs(k, n, fuel) == \* first n inputs u with iso(sswu(u)) = [k']g1 for k' = k, k+1, ...
  IF n = 0 \/ fuel = 0 THEN <<>>
  ELSE LET S == E1!PMulInt(Gen1, k)
           ps == IsoPre(S)
           us == FlattenSeq([i \in 1..Len(ps) |-> SwuPre(ps[i])])
       IN IF Len(us) = 0 THEN InSubInputs(k + 1, n, fuel - 1)
          ELSE <<us[1]>> \o InSubInputs(k + 1, n - 1, fuel - 1)
InSub1 == InSubInputs(1, 3, 12)
ASSUME Len(InSub1) = 3 /\ \A i \in 1..3 : InG1(Iso("G1", SSWU("G1", InSub1[i]))) /\ Iso("G1", SSWU("G1", InSub1[i])) # <<>>
InSubOps ==
  FlattenSeq([i \in 1..Len(InSub1) |->
     << [op |-> "map", g |-> "G1", u |-> InSub1[i], cls |-> "image-already-in-subgroup"] >>])
  \o << [op |-> "map2", g |-> "G1", u0 |-> InSub1[1], u1 |-> InSub1[2], cls |-> "images-already-in-subgroup"],
        [op |-> "map2", g |-> "G1", u0 |-> InSub1[3], u1 |-> FqPow(<<3>>, <<777>>), cls |-> "one-image-in-subgroup"] >>


(***************************************************************************)
(* G1 inputs u whose SWU image is a point of the KERNEL of the 11-isogeny: *)
(* the RFC composition gives the identity for them (map_to_curve(u) = O,   *)
(* map2_to_curve(u, v) = map_to_curve(v)), and any slip in how a stage     *)
(* represents "the image is the point at infinity" shows only here.  The   *)
(* kernel abscissae are the Fq-roots of the x-denominator; the inputs are  *)
(* found by inverting the SWU map as above and certified by evaluation.    *)
(***************************************************************************)
KerXs == RootsOf(DistinctRootPart(Iso1XDEN), 1)
KerPts == FlattenSeq([i \in 1..Len(KerXs) |->
            LET x == KerXs[i]  rhs == E1p!Rhs(x)  y == FqSqrtCand(rhs) IN
            IF FqSqr(y) = rhs THEN << <<x, y>>, <<x, FqNeg(y)>> >> ELSE <<>>])
KerInputs == FlattenSeq([i \in 1..Len(KerPts) |-> SwuPre(KerPts[i])])
ASSUME Len(KerInputs) >= 4
ASSUME \A i \in 1..Len(KerInputs) : Iso("G1", SSWU("G1", KerInputs[i])) = <<>> /\ MapToCurve("G1", KerInputs[i]) = <<>>
Generic1 == FqPow(<<5>>, <<4321>>)
KerOps ==
  FlattenSeq([i \in 1..Len(KerInputs) |->
     << [op |-> "map", g |-> "G1", u |-> KerInputs[i], cls |-> "swu-image-in-isogeny-kernel"],
        [op |-> "map2", g |-> "G1", u0 |-> KerInputs[i], u1 |-> Generic1, cls |-> "one-swu-image-in-kernel"],
        [op |-> "map2", g |-> "G1", u0 |-> FqNeg(Generic1), u1 |-> KerInputs[i], cls |-> "one-swu-image-in-kernel"],
        [op |-> "map2", g |-> "G1", u0 |-> KerInputs[i], u1 |-> KerInputs[1 + (i % Len(KerInputs))], cls |-> "both-swu-images-in-kernel"] >>])

RECURSIVE WriteChunks(_,_,_,_)
WriteChunks(name, s, n, k) ==
  IF Len(s) = 0 THEN TRUE
  ELSE LET m == IF Len(s) < n THEN Len(s) ELSE n IN
       /\ ndJsonSerialize(OutDir \o "/" \o name \o "-" \o ToString(k) \o ".script.ndjson", SubSeq(s, 1, m))
       /\ WriteChunks(name, SubSeq(s, m + 1, Len(s)), n, k + 1)
ASSUME WriteChunks("map-g1-insub", InSubOps, 5, 100)
ASSUME WriteChunks("map-g1-kernel", KerOps, 8, 100)
=============================================================================
