------------------------------ MODULE Gen_Enc ------------------------------
(***************************************************************************)
(* Script generation (spec -> impl) of the input classes that random       *)
(* sampling never reaches, constructed with the mathematics tier:          *)
(*  - points of every small prime order dividing the cofactors             *)
(*    (G1: 3, 11, 10177, 859267, 52437899; G2: 13, 23, 2713, 11953,        *)
(*    262069) and sums of two of them;                                     *)
(*  - "invalid-curve" pairs (s^2 x, s^3 y) for (x, y) in the subgroup:     *)
(*    they lie on y^2 = x^3 + s^6 b, NOT on the curve, yet the curve's     *)
(*    addition formulas (which never use b) give them order r;             *)
(*  - abscissae without a point, both sort flags on one abscissa.          *)
(* Used by C04 (decode), C05 (encode), C07 (membership), C17 (clear_h).    *)
(***************************************************************************)
EXTENDS JEncoding, CubeRoot, Json, IOUtils, TLC, SequencesExt

Thorough == IOEnv.VERIF_TIER = "thorough"
OutDir == IOEnv.OUT

(* a point of exact prime order l: [N / l^e] of a curve point (l^e || N), reduced by l if needed *)
RECURSIVE Tors1(_,_,_), Tors2(_,_,_)
Tors1(l, e, i) ==
  LET P == TLCEval(TryX1(FromInt(i), 60))
      le == IF e = 1 THEN l ELSE Mul(l, l)
      T == TLCEval(E1!PMul(P, Div(N1, le)))
      U == TLCEval(E1!PMul(T, l))
  IN IF E1!IsO(T) THEN Tors1(l, e, i + 7) ELSE IF E1!IsO(U) THEN T ELSE U
Tors2(l, e, i) ==
  LET P == TLCEval(TryX2(<<FromInt(i), One>>, 60))
      le == IF e = 1 THEN l ELSE Mul(l, l)
      T == TLCEval(E2!PMul(P, Div(N2, le)))
      U == TLCEval(E2!PMul(T, l))
  IN IF E2!IsO(T) THEN Tors2(l, e, i + 7) ELSE IF E2!IsO(U) THEN T ELSE U

Orders1 == << <<<<3>>, 1>>, <<<<11>>, 2>>, <<FromInt(10177), 2>>, <<FromInt(859267), 2>>, <<FromInt(52437899), 2>> >>
Orders2 == << <<<<13>>, 2>>, <<<<23>>, 2>>, <<FromInt(2713), 1>>, <<FromInt(11953), 1>>, <<FromInt(262069), 1>> >>
TorsPts1 == [i \in 1..5 |-> TLCEval(Tors1(Orders1[i][1], Orders1[i][2], 3 + i))]
TorsPts2 == [i \in 1..5 |-> TLCEval(Tors2(Orders2[i][1], Orders2[i][2], 3 + i))]
(* certificates: on the curve, not O, killed by l *)
ASSUME \A i \in 1..5 : E1!OnCurve(TorsPts1[i]) /\ ~E1!IsO(TorsPts1[i]) /\ E1!IsO(E1!PMul(TorsPts1[i], Orders1[i][1]))
ASSUME \A i \in 1..5 : E2!OnCurve(TorsPts2[i]) /\ ~E2!IsO(TorsPts2[i]) /\ E2!IsO(E2!PMul(TorsPts2[i], Orders2[i][1]))

(* sums: torsion + torsion, torsion + subgroup point *)
Mixed1 == << E1!PAdd(TorsPts1[1], TorsPts1[2]), E1!PAdd(TorsPts1[2], E1!PMulInt(Gen1, 5)),
             E1!PAdd(TorsPts1[5], TorsPts1[4]) >>
Mixed2 == << E2!PAdd(TorsPts2[1], TorsPts2[2]), E2!PAdd(TorsPts2[3], E2!PMulInt(Gen2, 5)) >>

(* invalid-curve pairs of order r *)
Sub1 == [i \in 1..3 |-> E1!PMulInt(Gen1, i + 1)]
Sub2 == [i \in 1..2 |-> E2!PMulInt(Gen2, i + 1)]
Scl == << <<2>>, <<3>>, FromInt(48879) >>
Inv1 == FlattenSeq([i \in 1..3 |-> [j \in 1..3 |->
          LET s == Scl[j] s2 == FqSqr(s) IN <<FqMul(Sub1[i][1], s2), FqMul(Sub1[i][2], FqMul(s2, s))>> ]])
Inv2 == FlattenSeq([i \in 1..2 |-> [j \in 1..3 |->
          LET s == Scl[j] s2 == FqSqr(s) IN <<F2MulFq(Sub2[i][1], s2), F2MulFq(Sub2[i][2], FqMul(s2, s))>> ]])
ASSUME \A i \in 1..Len(Inv1) : ~E1!OnCurve(Inv1[i]) /\ E1!IsO(E1!PMul(Inv1[i], R))
ASSUME \A i \in 1..Len(Inv2) : ~E2!OnCurve(Inv2[i])

(* abscissae with and without a point *)
RECURSIVE NoRoot1(_,_), NoRoot2(_,_)
NoRoot1(x, k) == IF k = 0 THEN <<>> ELSE
                 IF FqLegendre(E1!Rhs(x)) = -1 THEN <<x>> \o NoRoot1(FqAdd(x, One), k - 1) ELSE NoRoot1(FqAdd(x, One), k)
NoRoot2(x, k) == IF k = 0 THEN <<>> ELSE
                 IF F2Legendre(E2!Rhs(x)) = -1 THEN <<x>> \o NoRoot2(F2Add(x, F2One), k - 1) ELSE NoRoot2(F2Add(x, F2One), k)


(***************************************************************************)
(* Points whose ordinate sits at a boundary of the sort-flag comparison:   *)
(*  G1: y adjacent to (q-1)/2 on both sides;                               *)
(*  G2: y in the base field (c1 = 0, so the lexicographic order falls      *)
(*      through to c0) on both sides of (q-1)/2, and purely imaginary y.   *)
(* They are found by solving x^3 = y^2 - b for x.  9 || q-1 and 9 || q^2-1,*)
(* so a cube root of a cubic residue c is c^t (3t = 1 mod m, m = (|F*|)/9) *)
(* corrected by a 9th root of unity.  Every point produced is certified    *)
(* on the curve by the judges (and by the ASSUMEs below).                  *)
(***************************************************************************)
HalfQ == Div(Sub(Q, One), Two)
(* first k ordinates y = start + dir*d (d = 0, 1, ...) for which a point exists; dir = +1 / -1 *)
RECURSIVE YScan1(_,_,_,_)
YScan1(y, up, k, fuel) ==
  IF k = 0 \/ fuel = 0 THEN <<>>
  ELSE LET c == Cbrt1(FqSub(FqSqr(y), Four))
           nxt == IF up THEN FqAdd(y, One) ELSE FqSub(y, One)
       IN IF c[1] THEN << <<c[2], y>> >> \o YScan1(nxt, up, k - 1, fuel - 1) ELSE YScan1(nxt, up, k, fuel - 1)
(* G2, y = y0 + y1 u with one of the components zero *)
RECURSIVE YScan2(_,_,_,_,_)
YScan2(y, up, imag, k, fuel) ==
  IF k = 0 \/ fuel = 0 THEN <<>>
  ELSE LET yy == IF imag THEN <<Zero, y>> ELSE <<y, Zero>>
           c == Cbrt2(F2Sub(F2Sqr(yy), <<Four, Four>>))
           nxt == IF up THEN FqAdd(y, One) ELSE FqSub(y, One)
       IN IF c[1] THEN << <<c[2], yy>> >> \o YScan2(nxt, up, imag, k - 1, fuel - 1) ELSE YScan2(nxt, up, imag, k, fuel - 1)

(* G2, one coefficient of y EXACTLY at the boundary h = (q-1)/2 or (q+1)/2 and the other one generic   *)
(* (c = 1, 2, ...): the comparison "is y the larger root" is decided by y1 against (q-1)/2, and on a     *)
(* tie by y0                                                                                             *)
RECURSIVE YScanMix(_,_,_,_,_)
YScanMix(h, c, inC1, k, fuel) ==
  IF k = 0 \/ fuel = 0 THEN <<>>
  ELSE LET yy == IF inC1 THEN <<c, h>> ELSE <<h, c>>
           r == Cbrt2(F2Sub(F2Sqr(yy), <<Four, Four>>))
       IN IF r[1] THEN << <<r[2], yy>> >> \o YScanMix(h, FqAdd(c, One), inC1, k - 1, fuel - 1)
          ELSE YScanMix(h, FqAdd(c, One), inC1, k, fuel - 1)
BoundaryMix2 == YScanMix(HalfQ, One, TRUE, 3, 60) \o YScanMix(FqAdd(HalfQ, One), One, TRUE, 3, 60)
                \o YScanMix(HalfQ, One, FALSE, 2, 60) \o YScanMix(FqAdd(HalfQ, One), One, FALSE, 2, 60)
ASSUME Len(BoundaryMix2) = 10 /\ \A i \in 1..10 : E2!OnCurve(BoundaryMix2[i])

BoundaryPts1 == YScan1(HalfQ, FALSE, 3, 60) \o YScan1(FqAdd(HalfQ, One), TRUE, 3, 60)
                \o YScan1(<<3>>, TRUE, 2, 60) \o YScan1(FqNeg(<<3>>), FALSE, 2, 60)
(* several ordinates per class: which root a decompressor's square root happens to return varies *)
BoundaryPts2 == YScan2(HalfQ, FALSE, FALSE, 3, 60) \o YScan2(FqAdd(HalfQ, One), TRUE, FALSE, 3, 60)
                \o YScan2(<<3>>, TRUE, FALSE, 4, 60) \o YScan2(FqNeg(<<3>>), FALSE, FALSE, 4, 60)
                \o YScan2(<<5>>, TRUE, TRUE, 2, 60) \o YScan2(FqNeg(<<5>>), FALSE, TRUE, 2, 60)
ASSUME Len(BoundaryPts1) = 10 /\ \A i \in 1..10 : E1!OnCurve(BoundaryPts1[i])
ASSUME Len(BoundaryPts2) = 18 /\ \A i \in 1..18 : E2!OnCurve(BoundaryPts2[i])

AffRecOf(g, P) == IF Len(P) = 0 THEN (IF g = "G1" THEN <<Zero, One, TRUE>> ELSE <<F2Zero, F2One, TRUE>>)
                  ELSE <<P[1], P[2], FALSE>>
JacOf(g, P) == <<P[1], P[2], IF g = "G1" THEN One ELSE F2One>>
(* raw encodings of an arbitrary coordinate pair (the spec's encoder does not care about the curve) *)
DecOps(g, P, cls) ==
  << [op |-> "decode", g |-> g, form |-> "u", bytes |-> EncodeU(g, P), cls |-> cls],
     [op |-> "decode", g |-> g, form |-> "c", bytes |-> EncodeC(g, P), cls |-> cls],
     \* the other sort flag on the same abscissa
     [op |-> "decode", g |-> g, form |-> "c", bytes |-> EncodeC(g, <<P[1], GFNeg(g, P[2])>>), cls |-> cls \o "/other-root"],
     [op |-> "insub", g |-> g, p |-> AffRecOf(g, P), cls |-> cls] >>
CurveOps(g, P, cls) ==
  DecOps(g, P, cls) \o
  << [op |-> "encode", g |-> g, p |-> AffRecOf(g, P), cls |-> cls],
     [op |-> "clearh", g |-> g, p |-> JacOf(g, P), cls |-> cls] >>
XOnlyOps(g, x, cls) ==
  LET xb == CoordBytes(g, x) IN
  << [op |-> "decode", g |-> g, form |-> "c", bytes |-> SetFlags(xb, 128), cls |-> cls],
     [op |-> "decode", g |-> g, form |-> "c", bytes |-> SetFlags(xb, 160), cls |-> cls] >>

Script(g) ==
  LET tp == IF g = "G1" THEN TorsPts1 ELSE TorsPts2
      mx == IF g = "G1" THEN Mixed1 ELSE Mixed2
      iv == IF g = "G1" THEN Inv1 ELSE Inv2
      nr == IF g = "G1" THEN NoRoot1(FromInt(1000), 6) ELSE NoRoot2(<<FromInt(1000), <<7>>>>, 4)
      bp == IF g = "G1" THEN BoundaryPts1 ELSE BoundaryPts2 \o BoundaryMix2
  IN FlattenSeq([i \in 1..5 |-> CurveOps(g, tp[i], "torsion-prime-order")])
     \o FlattenSeq([i \in 1..Len(mx) |-> CurveOps(g, mx[i], "torsion-mixed")])
     \o FlattenSeq([i \in 1..Len(iv) |-> DecOps(g, iv[i], "invalid-curve-order-r")])
     \o FlattenSeq([i \in 1..Len(nr) |-> XOnlyOps(g, nr[i], "abscissa-without-point")])
     \o FlattenSeq([i \in 1..Len(bp) |-> DecOps(g, bp[i], "ordinate-at-sort-boundary")
                                         \o << [op |-> "encode", g |-> g, p |-> AffRecOf(g, bp[i]), cls |-> "ordinate-at-sort-boundary"] >>])

RECURSIVE WriteChunks(_,_,_,_)
WriteChunks(name, s, n, k) ==
  IF Len(s) = 0 THEN TRUE
  ELSE LET m == IF Len(s) < n THEN Len(s) ELSE n IN
       /\ ndJsonSerialize(OutDir \o "/" \o name \o "-" \o ToString(k) \o ".script.ndjson", SubSeq(s, 1, m))
       /\ WriteChunks(name, SubSeq(s, m + 1, Len(s)), n, k + 1)

ASSUME WriteChunks("enc-g1", Script("G1"), 8, 100)
ASSUME WriteChunks("enc-g2", Script("G2"), 3, 100)
=============================================================================
