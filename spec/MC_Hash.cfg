INIT Init
NEXT Next
INVARIANT TaskOK
CHECK_DEADLOCK FALSE
