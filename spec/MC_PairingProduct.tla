---- MODULE MC_PairingProduct ----
EXTENDS PairingProduct
MCAs == {0, 1, -1, 2}
MCBs == {0, 1, 3}
====
