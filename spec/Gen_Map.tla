------------------------------ MODULE Gen_Map ------------------------------
(***************************************************************************)
(* Script generation (spec -> impl) for C14 / C15: the inputs of the       *)
(* map-to-curve pipeline that random sampling never produces.              *)
(*  - DISTINCT u0, u1 (u1 # +-u0) whose simplified-SWU images coincide, or *)
(*    are inverse to each other.  With s = Z t^2 the first candidate       *)
(*    abscissa x1 = (-B/A)(1 + 1/(s^2 + s)) depends only on s^2 + s, which *)
(*    is invariant under s -> -1 - s; so t' with Z t'^2 = -1 - Z t^2 (when *)
(*    that is a square) has the same x1, and if g(x1) is a square both map *)
(*    to the same abscissa; the sign of t' selects equal / opposite y.     *)
(*  - the exceptional input with Z^2 t^4 + Z t^2 = 0, t # 0 (if it exists  *)
(*    in the field).                                                       *)
(* Every claim made here is re-checked with SSWU itself (ASSUMEs).         *)
(***************************************************************************)
EXTENDS JMap, Json, IOUtils, TLC, SequencesExt

OutDir == IOEnv.OUT
Seed(g, i) == IF g = "G1" THEN FqPow(<<3>>, FromInt(500 + 11 * i))
              ELSE <<FqPow(<<3>>, FromInt(500 + 11 * i)), FqPow(<<5>>, FromInt(300 + 7 * i))>>

(* t' with Z t'^2 = -1 - Z t^2, as <<exists, t'>> *)
Partner(g, t) ==
  LET z == SwuZ(g)
      s == KMul(g, z, KSqr(g, t))
      s2 == KSub(g, KNeg(g, KOne(g)), s)
      w == KMul(g, s2, KInv0(g, z))
  IN IF KIsSquare(g, w) THEN <<TRUE, KSqrt(g, w)>> ELSE <<FALSE, KZero(g)>>

(* first n seeds that yield a collision: <<t, t' (equal image), -t' (inverse image)>> *)
RECURSIVE Collisions(_,_,_,_)
Collisions(g, i, n, fuel) ==
  IF n = 0 \/ fuel = 0 THEN <<>>
  ELSE LET t == Seed(g, i)
           p == Partner(g, t)
       IN IF ~p[1] \/ p[2] = t \/ p[2] = KNeg(g, t) THEN Collisions(g, i + 1, n, fuel - 1)
          ELSE LET P == SSWU(g, t)  S == SSWU(g, p[2]) IN
               IF S = P THEN << <<t, p[2], KNeg(g, p[2])>> >> \o Collisions(g, i + 1, n - 1, fuel - 1)
               ELSE IF S = EpNeg(g, P) THEN << <<t, KNeg(g, p[2]), p[2]>> >> \o Collisions(g, i + 1, n - 1, fuel - 1)
               ELSE Collisions(g, i + 1, n, fuel - 1)
Coll1 == Collisions("G1", 1, 3, 60)
Coll2 == Collisions("G2", 1, 1, 60)
ASSUME Len(Coll1) = 3 /\ \A i \in 1..3 :
          /\ Coll1[i][2] # Coll1[i][1] /\ Coll1[i][2] # FqNeg(Coll1[i][1])
          /\ SSWU("G1", Coll1[i][2]) = SSWU("G1", Coll1[i][1])
          /\ SSWU("G1", Coll1[i][3]) = E1p!PNeg(SSWU("G1", Coll1[i][1]))
ASSUME Len(Coll2) = 1 /\ SSWU("G2", Coll2[1][2]) = SSWU("G2", Coll2[1][1]) /\ Coll2[1][2] # Coll2[1][1]

(* t # 0 with Z t^2 = -1 *)
Exceptional(g) == LET w == KMul(g, KNeg(g, KOne(g)), KInv0(g, SwuZ(g))) IN
                  IF KIsSquare(g, w) THEN <<KSqrt(g, w)>> ELSE <<>>


Ops(g, c) ==
  << [op |-> "swu", g |-> g, t |-> c[2], cls |-> "colliding-partner"],
     [op |-> "map2", g |-> g, u0 |-> c[1], u1 |-> c[2], cls |-> "distinct-inputs-equal-images"],
     [op |-> "map2", g |-> g, u0 |-> c[2], u1 |-> c[1], cls |-> "distinct-inputs-equal-images"],
     [op |-> "map2", g |-> g, u0 |-> c[1], u1 |-> c[3], cls |-> "distinct-inputs-inverse-images"] >>
ExcOps(g) == LET e == Exceptional(g) IN
  IF Len(e) = 0 THEN <<>>
  ELSE << [op |-> "swu", g |-> g, t |-> e[1], cls |-> "exceptional-Zt2=-1"],
          [op |-> "swu", g |-> g, t |-> KNeg(g, e[1]), cls |-> "exceptional-Zt2=-1"],
          [op |-> "map", g |-> g, u |-> e[1], cls |-> "exceptional-Zt2=-1"],
          [op |-> "map2", g |-> g, u0 |-> e[1], u1 |-> KZero(g), cls |-> "exceptional-with-zero"] >>

Script1 == FlattenSeq([i \in 1..Len(Coll1) |-> Ops("G1", Coll1[i])]) \o ExcOps("G1")
Script2 == FlattenSeq([i \in 1..Len(Coll2) |-> Ops("G2", Coll2[i])]) \o ExcOps("G2")

RECURSIVE WriteChunks(_,_,_,_)
WriteChunks(name, s, n, k) ==
  IF Len(s) = 0 THEN TRUE
  ELSE LET m == IF Len(s) < n THEN Len(s) ELSE n IN
       /\ ndJsonSerialize(OutDir \o "/" \o name \o "-" \o ToString(k) \o ".script.ndjson", SubSeq(s, 1, m))
       /\ WriteChunks(name, SubSeq(s, m + 1, Len(s)), n, k + 1)
ASSUME PrintT(<<"collisions", Len(Coll1), Len(Coll2), "exceptional", Len(Exceptional("G1")), Len(Exceptional("G2"))>>)
ASSUME WriteChunks("map-g1", Script1, 4, 100)
ASSUME WriteChunks("map-g2", Script2, 1, 100)
=============================================================================
