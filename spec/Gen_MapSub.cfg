
