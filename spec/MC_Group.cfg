SPECIFICATION Spec
CONSTANTS
  NRegs = 2
  MaxA = 4
INVARIANTS Refines OnCurveInv EqReflects SubgroupIffNoTorsion
CONSTRAINT Bounded
CHECK_DEADLOCK FALSE
