------------------------------- MODULE JScalar -------------------------------
(***************************************************************************)
(* Judges for scalar multiplication (C02) and multi-scalar multiplication  *)
(* (C10).  The oracle is Curve!PMul (MSB-first double-and-add on the       *)
(* affine law); digit recodings are judged by the arithmetic statement     *)
(* they must satisfy, not by comparing digits with a reference recoding.   *)
(***************************************************************************)
EXTENDS JCurve, PipCtl, TLC

Two255 == Pow2(255)

(* wNAF digits d_0 .. d_n (least significant first) of window w represent k:   *)
(* sum d_i 2^i = k, every non-zero digit is odd and |d_i| < 2^w - the condition *)
(* under which evaluation with the table of odd multiples P, 3P, .., (2^w-1)P   *)
(* is correct.  The signed sum is split into its positive and negative parts.  *)
RECURSIVE WnafPos(_,_), WnafNeg(_,_)
WnafPos(ds, i) == IF i > Len(ds) THEN Zero
                  ELSE Add(IF ds[i] > 0 THEN ShiftL(FromInt(ds[i]), i - 1) ELSE Zero, WnafPos(ds, i + 1))
WnafNeg(ds, i) == IF i > Len(ds) THEN Zero
                  ELSE Add(IF ds[i] < 0 THEN ShiftL(FromInt(-ds[i]), i - 1) ELSE Zero, WnafNeg(ds, i + 1))
RECURSIVE P2i(_)
P2i(n) == IF n = 0 THEN 1 ELSE 2 * P2i(n - 1)
WnafOK(ds, k, w) ==
  /\ WnafPos(ds, 1) = Add(WnafNeg(ds, 1), k)
  /\ \A i \in 1..Len(ds) : ds[i] # 0 => (ds[i] % 2 = 1 /\ ds[i] < P2i(w) /\ -ds[i] < P2i(w))

(* scalar selecting table entry j of the 256-entry interleaving table:           *)
(* sum over the set bits b of j of 2^(32 b)                                       *)
RECURSIVE Interleave8(_,_)
Interleave8(j, b) == IF b = 8 THEN Zero
                     ELSE Add(IF (j \div P2i(b)) % 2 = 1 THEN Pow2(32 * b) ELSE Zero, Interleave8(j, b + 1))

JudgeSmul(e) ==
  LET g == e.g
      P == GOfJac(g, e.p)
      X == TLCEval(GMul(g, P, e.k))
      Tb1 == TLCEval(GMul(g, P, Pow2(64)))
      Tb2 == TLCEval(GMul(g, Tb1, Pow2(64)))
      Tb3 == TLCEval(GMul(g, Tb2, Pow2(64)))
      o == e.out
  IN
  /\ GOnCurve(g, P)
  /\ GRep(g, o.mul_assign, X)
  /\ GRep(g, o.affine_mul, X)
  /\ (Lt(e.k, R) <=> "mul_assign_fr" \in DOMAIN o)
  /\ (Lt(e.k, R) => GRep(g, o.mul_assign_fr, X) /\ GRep(g, o.affine_mul_fr, X))
  /\ AffRep(o.pre3[1], Tb1) /\ AffRep(o.pre3[2], Tb2) /\ AffRep(o.pre3[3], Tb3)
  /\ GRep(g, o.mul_precomp_3, X)
  /\ GRep(g, o.mul_precomp_256, X)
  /\ \A i \in 1..Len(e.pre256_idx) :
        AffRep(o.pre256[i], GMul(g, P, Interleave8(e.pre256_idx[i], 0)))
  /\ (Lt(e.k, Two255) =>
        /\ \A i \in 1..Len(o.wnaf) :
             LET we == o.wnaf[i] IN
             /\ we.w >= 2 /\ we.w <= 22
             /\ GRep(g, we.r, X)
             \* table length and digit string are internals of the recoding: not judged (the
             \* recoding loop itself is model checked in WnafForm); drift is only reported
             /\ ((we.tlen = P2i(we.w - 1) /\ (e.log_digits => WnafOK(we.digits, e.k, we.w)))
                 \/ PrintT(<<"MODEL-DRIFT", "wnaf digits/table differ from WnafForm", we.w>>))
        /\ GRep(g, o.wnaf_base_scalar, X)
        /\ GRep(g, o.wnaf_scalar_base, X)
        /\ o.rec_scalar >= 2 /\ o.rec_scalar <= 22)

(* one call on a (re)used wNAF context: every result is [k]P for the arguments  *)
(* of that call, whatever the context computed before                            *)
JudgeWn(e) ==
  LET g == e.g IN
  CASE e.fn = "new" -> TRUE
    [] e.fn = "base_scalars" ->
         LET P == GOfJac(g, e.p) IN
         Len(e.out) = Len(e.ks) /\ \A i \in 1..Len(e.ks) : GRep(g, e.out[i], GMul(g, P, e.ks[i]))
    [] e.fn = "base_shared" ->
         LET P == GOfJac(g, e.p)  n == Len(e.ks) IN
         Len(e.out) = 2 * n /\ \A i \in 1..n :
            LET X == TLCEval(GMul(g, P, e.ks[i])) IN GRep(g, e.out[i], X) /\ GRep(g, e.out[n + i], X)
    [] e.fn = "scalar_bases" ->
         Len(e.out) = Len(e.ps) /\ \A i \in 1..Len(e.ps) : GRep(g, e.out[i], GMul(g, GOfJac(g, e.ps[i]), e.k))
    [] e.fn = "scalar_shared" ->
         LET n == Len(e.ps) IN
         Len(e.out) = 2 * n /\ \A i \in 1..n :
            LET X == TLCEval(GMul(g, GOfJac(g, e.ps[i]), e.k)) IN GRep(g, e.out[i], X) /\ GRep(g, e.out[n + i], X)

JudgeWnrec(e) == e.out >= 2 /\ e.out <= 22

(* the heuristic used by the default entry point; the estimate-based variant is not constrained *)
JudgePipwin(e) == e.out[1] >= 1 /\ e.out[1] <= 16

(* sum of [k_i]P_i over the first n pairs, by the definition *)
RECURSIVE MsmSum(_,_,_,_,_)
MsmSum(g, pts, ks, i, n) ==
  IF i > n THEN <<>>
  ELSE GAdd(g, GMul(g, OfAffRec(pts[i]), ks[i]), MsmSum(g, pts, ks, i + 1, n))
MinLen(a, b) == IF Len(a) < Len(b) THEN Len(a) ELSE Len(b)

(***************************************************************************)
(* White-box trace of the bucket method (recorder hook): the sequence of   *)
(* recorded windows must be a run of the Pippenger machine at WORD = 64,   *)
(* NW = 4: first window at bit 255 with no doublings; every next window    *)
(* position and doubling count by PipCtl; the loop ends exactly at the      *)
(* window containing bit 0; every recorded bucket index is "the bits of    *)
(* that window" of the scalar; the highest non-empty bucket is their max.   *)
(***************************************************************************)
BWinDigit(k, c, b) == ToInt(LowBits(ShiftR(k, PcWinLo(c, b)), PcWidth(c, b)))
MaxOf(s) == IF Len(s) = 0 THEN 0 ELSE CHOOSE m \in {s[i] : i \in 1..Len(s)} : \A i \in 1..Len(s) : s[i] <= m
PipRunOK(iters, ks, n, c) ==
  /\ Len(iters) >= 1
  /\ iters[1][1] = 255 /\ iters[1][2] = 0
  /\ PcLast(c, iters[Len(iters)][1])
  /\ \A j \in 1..Len(iters) :
        LET b == iters[j][1] IN
        /\ (j < Len(iters) => /\ ~PcLast(c, b)
                               /\ iters[j + 1][1] = PcNextBsi(c, b)
                               /\ iters[j + 1][2] = PcNextNd(c, b))
        /\ Len(iters[j][4]) = n
        /\ \A i \in 1..n : iters[j][4][i] = BWinDigit(ks[i], c, b)
        /\ iters[j][3] = MaxOf(iters[j][4])

JudgeMsm(e) ==
  LET g == e.g  n == MinLen(e.points, e.scalars) IN
  /\ \A i \in 1..n : Lt(e.scalars[i], Two255)          \* the property's domain
  /\ GRep(g, e.out.r, MsmSum(g, e.points, e.scalars, 1, n))
  /\ (e.fn = "default" => e.out.window >= 1 /\ e.out.window <= 16)
  \* the per-window records are internals: a run that is not a run of the Pippenger machine is
  \* reported as drift of the model, not as a violation of C10 (the result above is what counts)
  /\ (e.fn = "pippenger_w" =>
        (PipRunOK(e.out.iters, e.scalars, n, e.window)
         \/ PrintT(<<"MODEL-DRIFT", "bucket method is not a run of the Pippenger machine", e.window>>)))

(***************************************************************************)
(* Large inputs: the points are entries of a table {[a]B : |a| <= 8} that  *)
(* the specification certifies entry by entry; then                        *)
(*    sum [k_i]([a_i]B) = [sum a_i k_i mod r]B                             *)
(* (B in the subgroup), and the integer sum is computed with BigNat.       *)
(* Folding is two-level so that recursion depth stays below ~1000.         *)
(***************************************************************************)
RECURSIVE DotPos(_,_,_,_), DotNeg(_,_,_,_)
DotPos(as, ks, i, hi) == IF i > hi THEN Zero
   ELSE Add(IF as[i] > 0 THEN Mul(FromInt(as[i]), ks[i]) ELSE Zero, DotPos(as, ks, i + 1, hi))
DotNeg(as, ks, i, hi) == IF i > hi THEN Zero
   ELSE Add(IF as[i] < 0 THEN Mul(FromInt(-as[i]), ks[i]) ELSE Zero, DotNeg(as, ks, i + 1, hi))
CH == 500
RECURSIVE DotPosC(_,_,_,_), DotNegC(_,_,_,_)
DotPosC(as, ks, c, n) == IF (c - 1) * CH >= n THEN Zero
   ELSE Add(TLCEval(DotPos(as, ks, (c - 1) * CH + 1, IF c * CH < n THEN c * CH ELSE n)), DotPosC(as, ks, c + 1, n))
DotNegC(as, ks, c, n) == IF (c - 1) * CH >= n THEN Zero
   ELSE Add(TLCEval(DotNeg(as, ks, (c - 1) * CH + 1, IF c * CH < n THEN c * CH ELSE n)), DotNegC(as, ks, c + 1, n))

JudgeMsml(e) ==
  LET g == e.g
      B == OfAffRec(e.base)
      n == MinLen(e.a, e.scalars)
      kp == Rem(DotPosC(e.a, e.scalars, 1, n), R)
      kn == Rem(DotNegC(e.a, e.scalars, 1, n), R)
      X == GSub(g, GMul(g, B, kp), GMul(g, B, kn))
  IN
  /\ GInSub(g, B)
  /\ Len(e.out.table) = 17
  /\ \A j \in 1..17 : AffRep(e.out.table[j],
        IF j >= 9 THEN GMul(g, B, FromInt(j - 9)) ELSE GNeg(g, GMul(g, B, FromInt(9 - j))))
  /\ \A i \in 1..n : e.a[i] >= -8 /\ e.a[i] <= 8
  /\ GRep(g, e.out.r, X)
  /\ (e.fn = "default" => e.out.window >= 1 /\ e.out.window <= 16)
=============================================================================
