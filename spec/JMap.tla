--------------------------------- MODULE JMap ---------------------------------
(***************************************************************************)
(* RFC 9380 map-to-curve for BLS12-381: simplified SWU on the isogenous    *)
(* curve (straight-line description of section 6.6.2, with inv0, is_square *)
(* by Euler / norm, sqrt, sgn0), the rational isogeny maps of appendix E   *)
(* (coefficient tables transcribed in IsoConst, certified by MC_Iso), and  *)
(* cofactor clearing as multiplication by h_eff (section 8.8).             *)
(***************************************************************************)
EXTENDS JEncoding

(* base-field dispatch: Fq for G1, Fq2 for G2 *)
KAdd(g, a, b) == IF g = "G1" THEN FqAdd(a, b) ELSE F2Add(a, b)
KSub(g, a, b) == IF g = "G1" THEN FqSub(a, b) ELSE F2Sub(a, b)
KMul(g, a, b) == IF g = "G1" THEN FqMul(a, b) ELSE F2Mul(a, b)
KSqr(g, a)    == KMul(g, a, a)
KNeg(g, a)    == IF g = "G1" THEN FqNeg(a) ELSE F2Neg(a)
KZero(g)      == IF g = "G1" THEN Zero ELSE F2Zero
KOne(g)       == IF g = "G1" THEN One ELSE F2One
KInv0(g, a)   == IF a = KZero(g) THEN a ELSE IF g = "G1" THEN FqInv(a) ELSE F2Inv(a)
KIsSquare(g, a) == IF g = "G1" THEN FqIsSquare(a) ELSE F2IsSquare(a)
KSqrt(g, a)   == GSqrt(g, a)[2]                 \* some root (a must be a square)
KSgn0(g, a)   == IF g = "G1" THEN FpSgn0(a) ELSE F2Sgn0(a)

(* the isogenous curves E' : y^2 = x^3 + A'x + B' and the SWU parameter Z *)
EpA(g) == IF g = "G1" THEN E1pA ELSE E2pA
EpB(g) == IF g = "G1" THEN E1pB ELSE E2pB
SwuZ(g) == IF g = "G1" THEN <<11>> ELSE <<FqNeg(Two), FqNeg(One)>>     \* 11,  -(2 + I)
EpRhs(g, x) == KAdd(g, KAdd(g, KMul(g, KSqr(g, x), x), KMul(g, EpA(g), x)), EpB(g))
EpOnCurve(g, P) == IF g = "G1" THEN E1p!OnCurve(P) ELSE E2p!OnCurve(P)
EpRep(g, J, P) == IF g = "G1" THEN E1p!Represents(J, P) ELSE E2p!Represents(J, P)
EpOfJac(g, J) == IF g = "G1" THEN E1p!OfJac(J) ELSE E2p!OfJac(J)
EpAdd(g, P, S) == IF g = "G1" THEN E1p!PAdd(P, S) ELSE E2p!PAdd(P, S)
EpNeg(g, P) == IF g = "G1" THEN E1p!PNeg(P) ELSE E2p!PNeg(P)

(* map_to_curve_simple_swu(u) *)
SSWU(g, u) ==
  LET z   == SwuZ(g)
      zu2 == KMul(g, z, KSqr(g, u))
      tv1 == KInv0(g, KAdd(g, KSqr(g, zu2), zu2))
      mBA == KMul(g, KNeg(g, EpB(g)), KInv0(g, EpA(g)))
      x1  == IF tv1 = KZero(g) THEN KMul(g, EpB(g), KInv0(g, KMul(g, z, EpA(g))))
             ELSE KMul(g, mBA, KAdd(g, KOne(g), tv1))
      gx1 == EpRhs(g, x1)
      x2  == KMul(g, zu2, x1)
      gx2 == EpRhs(g, x2)
      sq1 == KIsSquare(g, gx1)
      x   == IF sq1 THEN x1 ELSE x2
      y0  == KSqrt(g, IF sq1 THEN gx1 ELSE gx2)
      y   == IF KSgn0(g, u) # KSgn0(g, y0) THEN KNeg(g, y0) ELSE y0
  IN <<x, y>>

(* polynomial with coefficients in ascending degree, Horner from the top *)
RECURSIVE PolyEvalH(_,_,_,_,_)
PolyEvalH(g, cs, x, i, acc) == IF i = 0 THEN acc
                               ELSE PolyEvalH(g, cs, x, i - 1, KAdd(g, KMul(g, acc, x), cs[i]))
PolyEval(g, cs, x) == PolyEvalH(g, cs, x, Len(cs), KZero(g))

IsoXNum(g) == IF g = "G1" THEN Iso1XNUM ELSE Iso2XNUM
IsoXDen(g) == IF g = "G1" THEN Iso1XDEN ELSE Iso2XDEN
IsoYNum(g) == IF g = "G1" THEN Iso1YNUM ELSE Iso2YNUM
IsoYDen(g) == IF g = "G1" THEN Iso1YDEN ELSE Iso2YDEN

(* E' -> E:  (x, y) -> (xnum/xden, y ynum/yden); O and the kernel (a pole) go to O *)
Iso(g, P) ==
  IF Len(P) = 0 THEN <<>>
  ELSE LET xd == PolyEval(g, IsoXDen(g), P[1])
           yd == PolyEval(g, IsoYDen(g), P[1])
       IN IF xd = KZero(g) \/ yd = KZero(g) THEN <<>>
          ELSE << KMul(g, PolyEval(g, IsoXNum(g), P[1]), KInv0(g, xd)),
                  KMul(g, P[2], KMul(g, PolyEval(g, IsoYNum(g), P[1]), KInv0(g, yd))) >>

HEff(g) == IF g = "G1" THEN HEff1 ELSE HEff2
ClearH(g, P) == GMul(g, P, HEff(g))

MapToCurve(g, u)       == ClearH(g, Iso(g, SSWU(g, u)))
Map2ToCurve(g, u0, u1) == ClearH(g, GAdd(g, Iso(g, SSWU(g, u0)), Iso(g, SSWU(g, u1))))

JudgeSwu(e) == LET P == TLCEval(SSWU(e.g, e.t)) IN EpOnCurve(e.g, P) /\ EpRep(e.g, e.out, P)
JudgeIso(e) == LET P == EpOfJac(e.g, e.p)  S == TLCEval(Iso(e.g, P)) IN
               EpOnCurve(e.g, P) /\ GOnCurve(e.g, S) /\ GRep(e.g, e.out, S)
(* homomorphism: the image of a sum (isogenous curve's own group law) is the sum of the images *)
JudgeIsoHom(e) ==
  LET g == e.g
      P == EpOfJac(g, e.p)  S == EpOfJac(g, e.q)
      T == TLCEval(EpAdd(g, P, S))
      IP == TLCEval(Iso(g, P))  IQ == TLCEval(Iso(g, S))  IT == TLCEval(Iso(g, T))
  IN /\ EpOnCurve(g, P) /\ EpOnCurve(g, S)
     /\ EpRep(g, e.out.sum, T)
     /\ GRep(g, e.out.ip, IP) /\ GRep(g, e.out.iq, IQ) /\ GRep(g, e.out.is, IT)
     /\ GAdd(g, IP, IQ) = IT
JudgeClearh(e) == LET P == GOfJac(e.g, e.p)  S == TLCEval(ClearH(e.g, P)) IN
                  GOnCurve(e.g, P) /\ GRep(e.g, e.out, S) /\ GMul(e.g, S, R) = <<>>
JudgeMap(e)  == LET S == TLCEval(MapToCurve(e.g, e.u)) IN GRep(e.g, e.out, S) /\ GMul(e.g, S, R) = <<>>
JudgeMap2(e) == LET S == TLCEval(Map2ToCurve(e.g, e.u0, e.u1)) IN GRep(e.g, e.out, S) /\ GMul(e.g, S, R) = <<>>
=============================================================================
