
