
