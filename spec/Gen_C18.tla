------------------------------ MODULE Gen_C18 ------------------------------
(***************************************************************************)
(* Script generation for C18 (spec -> impl): inputs of the Fq2 square root *)
(* chosen by the value of the INTERMEDIATE quantity every Fq2 square-root  *)
(* algorithm for q = 3 mod 4 passes through,                               *)
(*      alpha = a^((q-1)/2)        (norm +1 for squares, -1 otherwise).    *)
(* A branch of such an algorithm can only go wrong on inputs whose alpha   *)
(* is special, and those inputs look like random elements.  For a chosen   *)
(* tau of norm +-1 the element a = tau^((q-1)/2) * r^2 (r in Fq, r # 0) has     *)
(* alpha = tau, because ((q-1)/2)^2 = 1 mod 2(q+1) - asserted below - and  *)
(* r^(q-1) = 1.  The taus: 1, -1, u, -u (norm 1) and the norm -1 elements  *)
(* with a coefficient equal to +-1 or with equal coefficients              *)
(* (+-1 +- s u, +-s +- u with s^2 = -2;  +-t(1 +- u) with 2 t^2 = -1).     *)
(* Each a goes through sqrt and the quadratic character; for squares the   *)
(* judge also requires the returned root to square to a.                   *)
(***************************************************************************)
EXTENDS Fields, Json, IOUtils, TLC, SequencesExt

OutDir == IOEnv.OUT
Thorough == IOEnv.VERIF_TIER = "thorough"

Half == Div(Sub(Q, One), Two)
ASSUME Rem(Mul(Half, Half), Mul(Two, Add(Q, One))) = One

M1 == Sub(Q, One)
SqrtM2 == FqSqrtCand(Sub(Q, Two))
ASSUME FqSqr(SqrtM2) = Sub(Q, Two)                     \* -2 is a square (q = 3 mod 8)
MHalf == FqNeg(FqInv(Two))
THalf == FqSqrtCand(MHalf)
ASSUME FqSqr(THalf) = MHalf                            \* so is -1/2

Pm(x) == <<x, FqNeg(x)>>
Taus ==
  << <<One, Zero>>, <<M1, Zero>>, <<Zero, One>>, <<Zero, M1>> >>
  \o FlattenSeq([i \in 1..2 |-> [j \in 1..2 |-> <<Pm(One)[i], Pm(SqrtM2)[j]>>]])
  \o FlattenSeq([i \in 1..2 |-> [j \in 1..2 |-> <<Pm(SqrtM2)[i], Pm(One)[j]>>]])
  \o FlattenSeq([i \in 1..2 |-> [j \in 1..2 |-> <<Pm(THalf)[i], Pm(THalf)[j]>>]])
ASSUME \A i \in 1..Len(Taus) : F2Norm(Taus[i]) \in {One, M1}

Rs == << One, Two, FqPow(<<7>>, <<1234>>), M1 >>
NR == IF Thorough THEN 4 ELSE 2
Inputs == FlattenSeq([i \in 1..Len(Taus) |-> [k \in 1..NR |->
            F2MulFq(F2Pow(Taus[i], Half), FqSqr(Rs[k]))]])
(* the construction does what it says *)
ASSUME \A i \in 1..Len(Taus) : F2Pow(F2MulFq(F2Pow(Taus[i], Half), FqSqr(Rs[2])), Half) = Taus[i]

E1(fn, a) == [op |-> "ext", f |-> "Fq2", fn |-> fn, a |-> a, cls |-> "sqrt-special-alpha"]
Script == FlattenSeq([i \in 1..Len(Inputs) |->
            << E1("sqrt", Inputs[i]), E1("legendre", Inputs[i]), E1("sqrt", F2Neg(Inputs[i])),
               E1("sqrt", F2Sqr(Inputs[i])) >>])

ASSUME ndJsonSerialize(OutDir \o "/c18-sqrt-alpha-100.script.ndjson", Script)
=============================================================================
