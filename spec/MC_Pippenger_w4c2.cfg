SPECIFICATION Spec
CONSTANTS
  WORD = 4
  NW = 2
  C = 2
  N = 31
  PointChoices <- MCPoints2
  Scalars <- MCScalars
INVARIANTS Correct DigitsAgree BucketsCleared Tiling ResInv TypeOK
CHECK_DEADLOCK FALSE
