
