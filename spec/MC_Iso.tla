-------------------------------- MODULE MC_Iso --------------------------------
(***************************************************************************)
(* Certification of the transcribed isogeny tables and SWU parameters      *)
(* (IsoConst, JMap) independently of the code that evaluates them:         *)
(*  - the polynomial identity                                              *)
(*      (x^3 + A'x + B') ynum(x)^2 xden(x)^3 = yden(x)^2 (xnum(x)^3 + b xden(x)^3)   *)
(*    at more points than its degree (63 for the 11-isogeny, 15 for the    *)
(*    3-isogeny): hence (xnum/xden, y ynum/yden) maps E' to E identically; *)
(*  - degree pattern (11,10,15,15) / (3,2,3,3), monic denominators: the    *)
(*    point at infinity goes to infinity, so the map is an isogeny and a   *)
(*    group homomorphism (checked again on sample sums);                   *)
(*  - RFC 9380 6.6.2 conditions on Z: non-square, != -1, g(B/(ZA)) square. *)
(***************************************************************************)
EXTENDS JMap, TLC, IOUtils

VARIABLE task
NTasks == 16
Env(name, dflt) == IF name \in DOMAIN IOEnv THEN atoi(IOEnv[name]) ELSE dflt
Init == task \in {t \in Env("MATH_LO", 1)..Env("MATH_HI", NTasks) : t % Env("MATH_SHARDS", 1) = Env("MATH_SHARD", 0)}
Next == UNCHANGED task

Pt1(i) == FqPow(<<13>>, FromInt(700 + 3 * i))
Pt2(i) == <<Pt1(2 * i), Pt1(2 * i + 1)>>
KB(g) == IF g = "G1" THEN Four ELSE <<Four, Four>>
KCube(g, a) == KMul(g, a, KSqr(g, a))

Identity(g, x) ==
  LET xn == PolyEval(g, IsoXNum(g), x)  xd == PolyEval(g, IsoXDen(g), x)
      yn == PolyEval(g, IsoYNum(g), x)  yd == PolyEval(g, IsoYDen(g), x)
  IN KMul(g, EpRhs(g, x), KMul(g, KSqr(g, yn), KCube(g, xd)))
     = KMul(g, KSqr(g, yd), KAdd(g, KCube(g, xn), KMul(g, KB(g), KCube(g, xd))))

Shape(g) ==
  /\ Len(IsoXNum(g)) = (IF g = "G1" THEN 12 ELSE 4) /\ Len(IsoXDen(g)) = (IF g = "G1" THEN 11 ELSE 3)
  /\ Len(IsoYNum(g)) = (IF g = "G1" THEN 16 ELSE 4) /\ Len(IsoYDen(g)) = (IF g = "G1" THEN 16 ELSE 4)
  /\ IsoXDen(g)[Len(IsoXDen(g))] = KOne(g) /\ IsoYDen(g)[Len(IsoYDen(g))] = KOne(g)
  /\ IsoXNum(g)[Len(IsoXNum(g))] # KZero(g) /\ IsoYNum(g)[Len(IsoYNum(g))] # KZero(g)

ZCriteria(g) ==
  LET z == SwuZ(g) IN
  /\ ~KIsSquare(g, z)
  /\ z # KNeg(g, KOne(g))
  /\ KIsSquare(g, EpRhs(g, KMul(g, EpB(g), KInv0(g, KMul(g, z, EpA(g))))))
  /\ EpA(g) # KZero(g) /\ EpB(g) # KZero(g)

(* SWU lands on E', the isogeny lands on E and is additive; kernel of xden goes to O *)
Hom(g, i) ==
  LET t == IF g = "G1" THEN Pt1(i) ELSE Pt2(i)
      u == IF g = "G1" THEN Pt1(i + 50) ELSE Pt2(i + 50)
      P == SSWU(g, t)  S == SSWU(g, u)
  IN /\ EpOnCurve(g, P) /\ EpOnCurve(g, S)
     /\ GOnCurve(g, Iso(g, P))
     /\ Iso(g, EpAdd(g, P, S)) = GAdd(g, Iso(g, P), Iso(g, S))
     /\ Iso(g, EpAdd(g, P, P)) = GDbl(g, Iso(g, P))
     /\ Iso(g, EpNeg(g, P)) = GNeg(g, Iso(g, P))
     /\ KSgn0(g, P[2]) = KSgn0(g, t)
     /\ SSWU(g, KNeg(g, t)) = EpNeg(g, P)

TaskOK ==
  CASE task \in 1..7   -> \A i \in 1..10 : Identity("G1", Pt1(10 * task + i))      \* 70 points > 63
    [] task = 8        -> \A i \in 1..20 : Identity("G2", Pt2(i))                  \* 20 points > 15
    [] task = 9        -> Shape("G1") /\ Shape("G2") /\ ZCriteria("G1") /\ ZCriteria("G2")
    [] task \in 10..13 -> Hom("G1", task)
    [] task \in 14..16 -> Hom("G2", task)
=============================================================================
