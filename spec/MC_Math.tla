------------------------------- MODULE MC_Math -------------------------------
(***************************************************************************)
(* Self-consistency of the mathematics tier (the anchors of DESIGN 4.3):   *)
(* the judges are only as good as Fields/Curve/BLS/JMap/JPairing, so this  *)
(* model checks them against facts that do not come from the code under    *)
(* test: ring axioms of the tower on pseudo-random elements, generator     *)
(* relations, Frobenius by definition, group axioms on a set of points     *)
(* that contains every exceptional configuration, the abstract group       *)
(* Z x Z_l that the labelled points must realise, the curve orders, the    *)
(* published e(g1,g2) and bilinearity of the textbook pairing.             *)
(* One TLC state per task; the invariant evaluates the task.  (Expensive   *)
(* checks take a dummy parameter: TLC evaluates zero-arity constant-level  *)
(* definitions eagerly at start-up, in every shard.)                       *)
(***************************************************************************)
EXTENDS JPairing, TLC, IOUtils

VARIABLE task
NTasks == 60
(* the driver shards the task list over several TLC processes: tasks LO..HI with task % SHARDS = SHARD *)
Env(name, dflt) == IF name \in DOMAIN IOEnv THEN atoi(IOEnv[name]) ELSE dflt
Init == task \in {t \in Env("MATH_LO", 1)..Env("MATH_HI", NTasks) : t % Env("MATH_SHARDS", 1) = Env("MATH_SHARD", 0)}
Next == UNCHANGED task

(* pseudo-random field elements: powers of small bases *)
S(i) == FqPow(<<7>>, FromInt(1000 + 37 * i))
S2(i) == <<S(2*i), S(2*i + 1)>>
S6(i) == <<S2(3*i), S2(3*i + 1), S2(3*i + 2)>>
S12(i) == <<S6(2*i), S6(2*i + 1)>>

F2Laws(i) == LET a == S2(i) b == S2(i + 100) c == S2(i + 200) IN
  /\ F2Mul(F2Mul(a, b), c) = F2Mul(a, F2Mul(b, c))
  /\ F2Mul(a, b) = F2Mul(b, a)
  /\ F2Mul(a, F2Add(b, c)) = F2Add(F2Mul(a, b), F2Mul(a, c))
  /\ F2Mul(a, F2Inv(a)) = F2One
  /\ F2Sub(F2Add(a, b), b) = a
  /\ F2FrobDef(a, 1) = F2Frob(a, 1) /\ F2FrobDef(a, 2) = a
  /\ F2LegendreEuler(a) = F2Legendre(a)
  /\ LET r == F2Sqrt(F2Sqr(a)) IN r[1] /\ F2Sqr(r[2]) = F2Sqr(a)
  /\ (F2Legendre(a) = -1 <=> ~F2Sqrt(a)[1])
F6Laws(i) == LET a == S6(i) b == S6(i + 100) c == S6(i + 200) IN
  /\ F6Mul(F6Mul(a, b), c) = F6Mul(a, F6Mul(b, c))
  /\ F6Mul(a, b) = F6Mul(b, a)
  /\ F6Mul(a, F6Add(b, c)) = F6Add(F6Mul(a, b), F6Mul(a, c))
  /\ F6Mul(a, F6Inv(a)) = F6One
  /\ F6MulV(a) = F6Mul(a, <<F2Zero, F2One, F2Zero>>)
F12Laws(i) == LET a == S12(i) b == S12(i + 100) c == S12(i + 200) IN
  /\ F12Mul(F12Mul(a, b), c) = F12Mul(a, F12Mul(b, c))
  /\ F12Mul(a, b) = F12Mul(b, a)
  /\ F12Mul(a, F12Add(b, c)) = F12Add(F12Mul(a, b), F12Mul(a, c))
  /\ F12Mul(a, F12Inv(a)) = F12One
  /\ F12Frob(F12Mul(a, b), 1) = F12Mul(F12Frob(a, 1), F12Frob(b, 1))
  /\ F12Frob(F12Frob(a, 5), 7) = a                       \* x^(q^12) = x
  /\ F12Frob(a, 6) = F12Conj(a)                          \* x^(q^6) is the conjugation over Fq6

(* u^2 = -1, v^3 = 1 + u, w^2 = v, as elements of Fq12 *)
UU == << <<<<Zero, One>>, F2Zero, F2Zero>>, F6Zero >>
VV == << <<F2Zero, F2One, F2Zero>>, F6Zero >>
WW == << F6Zero, <<F2One, F2Zero, F2Zero>> >>
Generators(dummy) ==
  /\ F12Mul(UU, UU) = F12Neg(F12One)
  /\ F12Mul(VV, F12Mul(VV, VV)) = F12Add(F12One, UU)
  /\ F12Mul(WW, WW) = VV

FrobDefs(k) == /\ Gamma(k) = GammaDef(k)
               /\ (k <= 2 => F12Frob(S12(k), k) = F12FrobDef(S12(k), k))
               /\ (k <= 3 => F6Frob(S6(k), k) = F6FrobDef(S6(k), k))

(* labelled points [a]g + [b]T and the abstract group Z x Z_3 they realise *)
Lab1(a, b) == E1!PAdd(E1!PMulInt(Gen1, a), E1!PMulInt(T3, b))
Set1 == [i \in 1..15 |-> Lab1(((i - 1) \div 3) - 2, (i - 1) % 3)]     \* a in -2..2, b in 0..2
Assoc1(i) == \A j, k \in 1..15 :
   /\ E1!PAdd(E1!PAdd(Set1[i], Set1[j]), Set1[k]) = E1!PAdd(Set1[i], E1!PAdd(Set1[j], Set1[k]))
   /\ E1!PAdd(Set1[i], Set1[j]) = E1!PAdd(Set1[j], Set1[i])
Refine1(i) == \A j \in 1..15 :
   LET a1 == ((i - 1) \div 3) - 2  b1 == (i - 1) % 3  a2 == ((j - 1) \div 3) - 2  b2 == (j - 1) % 3 IN
   /\ E1!PAdd(Set1[i], Set1[j]) = Lab1(a1 + a2, (b1 + b2) % 3)
   /\ E1!PSub(Set1[i], Set1[j]) = Lab1(a1 - a2, (b1 - b2 + 3) % 3)
   /\ E1!OnCurve(Set1[i])
   /\ E1!PAdd(Set1[i], E1!PNeg(Set1[i])) = <<>>
   /\ E1!PDbl(Set1[i]) = E1!PAdd(Set1[i], Set1[i])
Set2 == [i \in 1..7 |-> E2!PMulInt(Gen2, i - 4)]
Assoc2(i) == \A j, k \in 1..7 :
   /\ E2!PAdd(E2!PAdd(Set2[i], Set2[j]), Set2[k]) = E2!PAdd(Set2[i], E2!PAdd(Set2[j], Set2[k]))
   /\ E2!PAdd(Set2[i], Set2[j]) = E2!PMulInt(Gen2, i + j - 8)

Orders(i) ==
  LET P1 == TryX1(FromInt(50 + i), 60)  P2 == TryX2(<<FromInt(50 + i), <<3>>>>, 60) IN
  /\ E1!PMul(Gen1, R) = <<>> /\ E2!PMul(Gen2, R) = <<>>
  /\ E1!OnCurve(P1) /\ E1!PMul(P1, N1) = <<>>
  /\ E2!OnCurve(P2) /\ E2!PMul(P2, N2) = <<>>
  /\ E1!PMul(E1!PMul(P1, HEff1), R) = <<>>               \* [h_eff] lands in the subgroup
  /\ E2!PMul(E2!PMul(P2, HEff2), R) = <<>>

PairingAnchor(dummy) == Pairing(Gen1, Gen2) = RelicGT
(* bilinearity of the textbook pairing itself on small multiples *)
Bilinear(a, b) ==
  Pairing(E1!PMulInt(Gen1, a), E2!PMulInt(Gen2, b)) = F12Pow(RelicGT, FromInt(a * b))
FinalExpSplit(dummy) == LET f == S12(7) IN FinalExp(f) = FinalExpDef(f)
PairingDegenerate(dummy) == Pairing(<<>>, Gen2) = F12One /\ Pairing(Gen1, <<>>) = F12One
GTOrder(dummy) == F12Pow(RelicGT, R) = F12One /\ RelicGT # F12One

TaskOK ==
  CASE task \in 1..8   -> F2Laws(task)
    [] task \in 9..14  -> F6Laws(task)
    [] task \in 15..18 -> F12Laws(task)
    [] task = 19       -> Generators(task)
    [] task \in 20..32 -> FrobDefs(task - 20)
    [] task \in 33..47 -> Assoc1(task - 32) /\ Refine1(task - 32)
    [] task \in 48..54 -> Assoc2(task - 47)
    [] task \in 55..56 -> Orders(task)
    [] task = 57       -> PairingAnchor(task) /\ PairingDegenerate(task)
    [] task = 58       -> Bilinear(2, 3)
    [] task = 59       -> GTOrder(task)
    [] task = 60       -> IF IOEnv.VERIF_TIER = "thorough" THEN FinalExpSplit(task) ELSE TRUE
=============================================================================
