---------------------------- MODULE DecodeStages ----------------------------
(***************************************************************************)
(* The point decoder of C04 as a staged machine over INPUT CLASSES.  An    *)
(* input is abstracted to the answers of the five validations              *)
(*   form   : the compression bit agrees with the requested form           *)
(*   flags  : infinity bit set  => every other bit (sort bit included) is  *)
(*            zero;  infinity bit clear and uncompressed => sort bit clear *)
(*   range  : every coordinate is a reduced field element                  *)
(*   curve  : the curve equation holds (compressed: a square root exists)  *)
(*   sub    : r times the point is the identity                            *)
(* The machine runs the stages in this order; the first failing stage      *)
(* determines the error category; the unchecked variant skips the curve    *)
(* equation (uncompressed form only - decompression cannot skip the root)  *)
(* and the subgroup stage.  Model checked over ALL class records.          *)
(* JEncoding!Decode is the same function on concrete byte strings; the     *)
(* trace judge checks that both agree on every recorded input              *)
(* (JEncoding!ClassOf + Verdict).                                          *)
(***************************************************************************)
EXTENDS Integers, Sequences

Stages == <<"form", "flags", "range", "curve", "sub">>
ErrOf(stage) == CASE stage = "form"  -> "UnexpectedCompressionMode"
                  [] stage = "flags" -> "UnexpectedInformation"
                  [] stage = "range" -> "Coordinate"
                  [] stage = "curve" -> "NotOnCurve"
                  [] stage = "sub"   -> "NotInSubgroup"

(* a class record: form, checked, inf, and one BOOLEAN per stage *)
Applies(c, stage) ==
  CASE stage = "form"  -> TRUE
    [] stage = "flags" -> TRUE
    [] stage = "range" -> ~c.inf                                  \* the identity has no coordinates to range-check
    [] stage = "curve" -> ~c.inf /\ (c.checked \/ c.form = "c")   \* decompression needs the root even when unchecked
    [] stage = "sub"   -> ~c.inf /\ c.checked
Passes(c, stage) == c[stage]

(* the specification: first failing applicable stage, else accept *)
RECURSIVE FirstFail(_,_)
FirstFail(c, i) == IF i > Len(Stages) THEN "ok"
                   ELSE IF Applies(c, Stages[i]) /\ ~Passes(c, Stages[i]) THEN ErrOf(Stages[i])
                   ELSE FirstFail(c, i + 1)
Verdict(c) == FirstFail(c, 1)

Classes == [form : {"c", "u"}, checked : BOOLEAN, inf : BOOLEAN,
            form_ : BOOLEAN, flags : BOOLEAN, range : BOOLEAN, curve : BOOLEAN, sub : BOOLEAN]
(* stage "form" result lives in field form_ *)
PassesR(r, stage) == IF stage = "form" THEN r.form_ ELSE r[stage]
AppliesR(r, stage) == Applies([form |-> r.form, checked |-> r.checked, inf |-> r.inf], stage)
(* consistency of a class record: a point in the subgroup is on the curve *)
Consistent(r) == (r.sub => r.curve)

RECURSIVE FirstFailR(_,_)
FirstFailR(r, i) == IF i > Len(Stages) THEN "ok"
                    ELSE IF AppliesR(r, Stages[i]) /\ ~PassesR(r, Stages[i]) THEN ErrOf(Stages[i])
                    ELSE FirstFailR(r, i + 1)
=============================================================================
