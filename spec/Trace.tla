-------------------------------- MODULE Trace --------------------------------
(***************************************************************************)
(* Trace validation: one TLC state per recorded library call.  The trace   *)
(* (ndjson, env TRACE) was written by the harness from the real code; an   *)
(* event is consumed iff it is a step the specification allows.  SKIP      *)
(* names a ndjson file of event indices consumed without judgement (used   *)
(* by the driver to keep judging after a rejected / known-finding event).  *)
(***************************************************************************)
EXTENDS JField, JScalar, JStream, JPairing, Json, IOUtils, TLC

Rec  == ndJsonDeserialize(IOEnv.TRACE)
SkipSeq == ndJsonDeserialize(IOEnv.SKIP)
Skip == {SkipSeq[i] : i \in 1..Len(SkipSeq)}

VARIABLES l, cm, st, memo, tseq
vars == <<l, cm, st, memo, tseq>>

Init == l = 1 /\ cm = [G1 |-> InitRegs, G2 |-> InitRegs] /\ st = InitStream
        /\ memo = <<>> /\ tseq = <<>>

Stateless(e) ==
  CASE e.op = "fp"   -> JudgeFp(e)
    [] e.op = "repr" -> JudgeRepr(e)
    [] e.op = "ext"  -> JudgeExt(e)
    [] e.op = "smul" -> JudgeSmul(e)
    [] e.op = "wn"   -> JudgeWn(e)
    [] e.op = "wnrec" -> JudgeWnrec(e)
    [] e.op = "pipwin" -> JudgePipwin(e)
    [] e.op = "msm"  -> JudgeMsm(e)
    [] e.op = "msml" -> JudgeMsml(e)
    [] e.op = "decode" -> JudgeDecode(e)
    [] e.op = "pipe" -> JudgePipe(e)
    [] e.op = "encode" -> JudgeEncode(e)
    [] e.op = "insub" -> JudgeInsub(e)
    [] e.op \in {"xmd", "xof"} -> JudgeExpand(e)
    [] e.op = "h2f" -> JudgeH2f(e)
    [] e.op = "okm" -> JudgeOkm(e)
    [] e.op = "h2c" -> JudgeH2c(e)
    [] e.op = "swu" -> JudgeSwu(e)
    [] e.op = "iso" -> JudgeIso(e)
    [] e.op = "iso_hom" -> JudgeIsoHom(e)
    [] e.op = "clearh" -> JudgeClearh(e)
    [] e.op = "map" -> JudgeMap(e)
    [] e.op = "map2" -> JudgeMap2(e)
    [] e.op = "pairing" -> JudgePairing(e)
    [] e.op = "bilin" -> JudgeBilin(e)
    [] e.op = "finalexp" -> JudgeFinalExp(e)
    [] e.op = "ferel" -> JudgeFeRel(e)
    [] e.op = "pairl" -> JudgePairl(e)
    [] e.op = "pairr" -> JudgePairr(e)
    [] e.op = "prod" -> \A i \in 1..Len(e.out) : InSubJ(e.g, e.out[i])

IsStateful(e) == e.op \in {"cm"}

(***************************************************************************)
(* C20 (module Concurrent, inlined): the library is specified as a pure    *)
(* function of its arguments, so the specification has no shared variable: *)
(* memo remembers the value of every operation instance of the sequential  *)
(* reference run (each of which is judged against the mathematics like any *)
(* other event); every later execution of the instance - in another order, *)
(* from another thread, while other threads run - must return exactly that *)
(* value.  tseq checks that no event of a thread was lost or reordered.    *)
(***************************************************************************)
Memoize(e) ==
  IF "inst" \in DOMAIN e
  THEN /\ (e.inst \in DOMAIN memo => memo[e.inst] = e.out)
       /\ memo' = (e.inst :> e.out) @@ memo
  ELSE UNCHANGED memo

Next ==
  /\ l <= Len(Rec)
  /\ l' = l + 1
  /\ LET e == Rec[l] IN
     IF l \in Skip THEN UNCHANGED <<cm, st, memo, tseq>>
     ELSE IF e.op = "ret" THEN
        /\ ~e.panic
        /\ e.inst \in DOMAIN memo
        /\ (e.val = memo[e.inst]) = TRUE
        /\ e.seq = (IF e.t \in DOMAIN tseq THEN tseq[e.t] ELSE 0) + 1
        /\ tseq' = (e.t :> e.seq) @@ tseq
        /\ UNCHANGED <<cm, st, memo>>
     ELSE IF e.op = "cm" THEN
        /\ ~e.panic
        /\ LET r == CmStep(e.g, cm[e.g], e) IN r[1] = TRUE /\ cm' = [cm EXCEPT ![e.g] = r[2]]
        /\ UNCHANGED <<st, tseq>> /\ Memoize(e)
     ELSE IF e.op = "st" THEN
        /\ ~e.panic
        /\ LET r == StStep(st, e) IN r[1] = TRUE /\ st' = r[2]
        /\ UNCHANGED <<cm, tseq>> /\ Memoize(e)
     ELSE IF "xabort" \in DOMAIN e THEN
          \* a call outside the domain of its own property, placed in a history on purpose (C20):
          \* not judged; only remembered, so that later executions are compared with it
          /\ UNCHANGED <<cm, st, tseq>> /\ Memoize(e)
     ELSE /\ ~e.panic
          /\ Stateless(e) = TRUE      \* "= TRUE": evaluate the judge as a value, not as an action
          /\ UNCHANGED <<cm, st, tseq>> /\ Memoize(e)

Spec == Init /\ [][Next]_vars

(* accepted iff every line was consumed; otherwise report the first unmatched line *)
Accepted ==
  LET d == TLCGet("stats").diameter IN
  IF d = Len(Rec) + 1 THEN PrintT(<<"TRACE-ACCEPTED", Len(Rec)>>)
  ELSE PrintT(<<"TRACE-REJECTED", d>>) /\ FALSE
=============================================================================
