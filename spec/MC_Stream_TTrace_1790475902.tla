---- MODULE MC_Stream_TTrace_1790475902 ----
EXTENDS Sequences, TLCExt, Toolbox, MC_Stream, Naturals, TLC

_expression ==
    LET MC_Stream_TEExpression == INSTANCE MC_Stream_TEExpression
    IN MC_Stream_TEExpression!expression
----

_trace ==
    LET MC_Stream_TETrace == INSTANCE MC_Stream_TETrace
    IN MC_Stream_TETrace!trace
----

_inv ==
    ~(
        TLCGet("level") = Len(_TETrace)
        /\
        rbuf = (<<<<1, 1>>, <<1, 2>>, <<2, 1>>>>)
        /\
        pos = (2)
        /\
        log = (<<[ty |-> "A", res |-> 1, before |-> 0, after |-> 2]>>)
        /\
        wbuf = (<<<<1, 1>>, <<1, 2>>, <<2, 1>>, <<2, 2>>>>)
        /\
        items = (<<"A", "A">>)
    )
----

_init ==
    /\ pos = _TETrace[1].pos
    /\ items = _TETrace[1].items
    /\ wbuf = _TETrace[1].wbuf
    /\ rbuf = _TETrace[1].rbuf
    /\ log = _TETrace[1].log
----

_next ==
    /\ \E i,j \in DOMAIN _TETrace:
        /\ \/ /\ j = i + 1
              /\ i = TLCGet("level")
        /\ pos  = _TETrace[i].pos
        /\ pos' = _TETrace[j].pos
        /\ items  = _TETrace[i].items
        /\ items' = _TETrace[j].items
        /\ wbuf  = _TETrace[i].wbuf
        /\ wbuf' = _TETrace[j].wbuf
        /\ rbuf  = _TETrace[i].rbuf
        /\ rbuf' = _TETrace[j].rbuf
        /\ log  = _TETrace[i].log
        /\ log' = _TETrace[j].log

\* Uncomment the ASSUME below to write the states of the error trace
\* to the given file in Json format. Note that you can pass any tuple
\* to `JsonSerialize`. For example, a sub-sequence of _TETrace.
    \* ASSUME
    \*     LET J == INSTANCE Json
    \*         IN J!JsonSerialize("MC_Stream_TTrace_1790475902.json", _TETrace)

=============================================================================

 Note that you can extract this module `MC_Stream_TEExpression`
  to a dedicated file to reuse `expression` (the module in the 
  dedicated `MC_Stream_TEExpression.tla` file takes precedence 
  over the module `MC_Stream_TEExpression` below).

---- MODULE MC_Stream_TEExpression ----
EXTENDS Sequences, TLCExt, Toolbox, MC_Stream, Naturals, TLC

expression == 
    [
        \* To hide variables of the `MC_Stream` spec from the error trace,
        \* remove the variables below.  The trace will be written in the order
        \* of the fields of this record.
        pos |-> pos
        ,items |-> items
        ,wbuf |-> wbuf
        ,rbuf |-> rbuf
        ,log |-> log
        
        \* Put additional constant-, state-, and action-level expressions here:
        \* ,_stateNumber |-> _TEPosition
        \* ,_posUnchanged |-> pos = pos'
        
        \* Format the `pos` variable as Json value.
        \* ,_posJson |->
        \*     LET J == INSTANCE Json
        \*     IN J!ToJson(pos)
        
        \* Lastly, you may build expressions over arbitrary sets of states by
        \* leveraging the _TETrace operator.  For example, this is how to
        \* count the number of times a spec variable changed up to the current
        \* state in the trace.
        \* ,_posModCount |->
        \*     LET F[s \in DOMAIN _TETrace] ==
        \*         IF s = 1 THEN 0
        \*         ELSE IF _TETrace[s].pos # _TETrace[s-1].pos
        \*             THEN 1 + F[s-1] ELSE F[s-1]
        \*     IN F[_TEPosition - 1]
    ]

=============================================================================



Parsing and semantic processing can take forever if the trace below is long.
 In this case, it is advised to uncomment the module below to deserialize the
 trace from a generated binary file.

\*
\*---- MODULE MC_Stream_TETrace ----
\*EXTENDS IOUtils, MC_Stream, TLC
\*
\*trace == IODeserialize("MC_Stream_TTrace_1790475902.bin", TRUE)
\*
\*=============================================================================
\*

---- MODULE MC_Stream_TETrace ----
EXTENDS MC_Stream, TLC

trace == 
    <<
    ([rbuf |-> <<>>,pos |-> 0,log |-> <<>>,wbuf |-> <<>>,items |-> <<>>]),
    ([rbuf |-> <<>>,pos |-> 0,log |-> <<>>,wbuf |-> <<<<1, 1>>, <<1, 2>>>>,items |-> <<"A">>]),
    ([rbuf |-> <<>>,pos |-> 0,log |-> <<>>,wbuf |-> <<<<1, 1>>, <<1, 2>>, <<2, 1>>, <<2, 2>>>>,items |-> <<"A", "A">>]),
    ([rbuf |-> <<<<1, 1>>, <<1, 2>>, <<2, 1>>>>,pos |-> 0,log |-> <<>>,wbuf |-> <<<<1, 1>>, <<1, 2>>, <<2, 1>>, <<2, 2>>>>,items |-> <<"A", "A">>]),
    ([rbuf |-> <<<<1, 1>>, <<1, 2>>, <<2, 1>>>>,pos |-> 2,log |-> <<[ty |-> "A", res |-> 1, before |-> 0, after |-> 2]>>,wbuf |-> <<<<1, 1>>, <<1, 2>>, <<2, 1>>, <<2, 2>>>>,items |-> <<"A", "A">>])
    >>
----


=============================================================================

---- CONFIG MC_Stream_TTrace_1790475902 ----
CONSTANTS
    Types = { "A" , "B" }
    Size <- MCSize
    MaxItems = 2

INVARIANT
    _inv

CHECK_DEADLOCK
    \* CHECK_DEADLOCK off because of PROPERTY or INVARIANT above.
    FALSE

INIT
    _init

NEXT
    _next

CONSTANT
    _TETrace <- _trace

ALIAS
    _expression
=============================================================================
\* Generated on Sun Sep 27 02:25:03 UTC 2026