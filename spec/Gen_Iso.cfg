
