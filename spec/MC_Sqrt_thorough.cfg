CONSTANT Primes <- PrimesThorough
SPECIFICATION Spec
INVARIANT Correct
INVARIANT AlphaNorm
INVARIANT A0IsNorm
INVARIANT SpecialClassInhabited
CHECK_DEADLOCK FALSE
