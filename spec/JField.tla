------------------------------- MODULE JField -------------------------------
(***************************************************************************)
(* Judges for field-level events (C08, C09, C18): each operator is TRUE    *)
(* iff the logged result of one library call is the value the mathematics  *)
(* in Fields.tla prescribes for the logged arguments.                      *)
(***************************************************************************)
EXTENDS Fields

LOCAL Modulus(f) == IF f = "Fq" THEN Q ELSE R
LOCAL Width(f)   == IF f = "Fq" THEN 384 ELSE 256
Reverse(s) == [i \in 1..Len(s) |-> s[Len(s) + 1 - i]]


(* 2-adicity of n > 0 *)
RECURSIVE TwoAdicity(_)
TwoAdicity(n) == IF Bit(n, 0) = 1 THEN 0 ELSE 1 + TwoAdicity(ShiftR(n, 1))

(* a logged comparison (cmp, partial_cmp and the four operators) against the order relation c *)
OrdOK(o, c) == /\ o.c = c /\ o.pc = c
               /\ o.lt = (c = -1) /\ o.le = (c # 1) /\ o.gt = (c = 1) /\ o.ge = (c # -1)
               /\ o.max_is_a = (c # -1)

JudgeFp(e) ==
  LET p == Modulus(e.f) IN
  CASE e.fn = "add" -> e.out = FpAdd(p, e.a, e.b)
    [] e.fn = "sub" -> e.out = FpSub(p, e.a, e.b)
    [] e.fn = "mul" -> e.out = FpMul(p, e.a, e.b)
    [] e.fn = "neg" -> e.out = FpNeg(p, e.a)
    [] e.fn = "dbl" -> e.out = FpDbl(p, e.a)
    [] e.fn = "sqr" -> e.out = FpSqr(p, e.a)
    [] e.fn = "inv" -> IF e.a = Zero THEN IsNone(e.out)
                       ELSE IsSome(e.out) /\ Lt(e.out[2], p) /\ FpMul(p, e.a, e.out[2]) = One
    [] e.fn = "pow" -> e.out = FpPow(p, e.a, e.e)
    [] e.fn = "cmp" -> OrdOK(e.out, Cmp(e.a, e.b))
    [] e.fn = "eq"  -> e.out = (e.a = e.b)
    [] e.fn = "is_zero" -> e.out = (e.a = Zero)
    [] e.fn = "into_repr" -> e.out = e.a
    [] e.fn = "from_repr" -> IF Lt(e.n, p) THEN e.out = <<"ok", e.n>> ELSE e.out = <<"err">>
    [] e.fn = "sqrt" -> IF FpLegendre(p, e.a) = -1 THEN IsNone(e.out)
                        ELSE IsSome(e.out) /\ Lt(e.out[2], p) /\ FpSqr(p, e.out[2]) = e.a
    [] e.fn = "legendre" -> e.out = FpLegendre(p, e.a)
    [] e.fn = "sgn0" -> e.out = FpSgn0(e.a)
    [] e.fn = "negate_if" -> e.out = (IF e.s = 1 THEN FpNeg(p, e.a) ELSE e.a)
    [] e.fn = "ypair" ->
         LET n == FpNeg(p, e.a) IN
         /\ e.out.neg = n /\ e.out.cmp = Cmp(e.a, n)
         /\ e.out.s = FpSgn0(e.a) /\ e.out.sn = FpSgn0(n)
         /\ (e.a # Zero => (e.out.cmp # 0 /\ e.out.s # e.out.sn))
    [] e.fn = "consts" ->
         LET s == TwoAdicity(Sub(p, One)) IN
         /\ e.out.char = p
         /\ e.out.num_bits = NumBits(p)
         /\ e.out.capacity = NumBits(p) - 1
         /\ e.out.s = s
         /\ FpLegendre(p, e.out.gen) = -1
         /\ FpPow(p, e.out.rou, Pow2(s)) = One
         /\ (s = 0 \/ FpPow(p, e.out.rou, Pow2(s - 1)) # One)

JudgeRepr(e) ==
  LET w == Width(e.f)  nb == w \div 8 IN
  CASE e.fn = "add_nocarry"  -> Lt(Add(e.a, e.b), Pow2(w)) => e.out = Add(e.a, e.b)
    [] e.fn = "sub_noborrow" -> Le(e.b, e.a) => e.out = Sub(e.a, e.b)
    [] e.fn = "shr"  -> e.out = (IF e.n >= w THEN Zero ELSE ShiftR(e.a, e.n))
    [] e.fn = "shl"  -> e.out = (IF e.n >= w THEN Zero ELSE LowBits(ShiftL(e.a, e.n), w))
    [] e.fn = "div2" -> e.out = ShiftR(e.a, 1)
    [] e.fn = "mul2" -> e.out = LowBits(ShiftL(e.a, 1), w)
    [] e.fn = "num_bits" -> e.out = NumBits(e.a)
    [] e.fn = "is_odd"   -> e.out = (Bit(e.a, 0) = 1)
    [] e.fn = "is_even"  -> e.out = (Bit(e.a, 0) = 0)
    [] e.fn = "is_zero"  -> e.out = (e.a = Zero)
    [] e.fn = "cmp" -> OrdOK(e.out, Cmp(e.a, e.b))
    [] e.fn = "eq"  -> e.out = (e.a = e.b)
    [] e.fn = "write_be" -> e.out = ToBytesBE(e.a, nb)
    [] e.fn = "write_le" -> e.out = Reverse(ToBytesBE(e.a, nb))
    [] e.fn = "read_be" -> IF Len(e.bytes) < nb THEN e.out = <<"err">>
                           ELSE e.out = <<"ok", FromBytesBE(SubSeq(e.bytes, 1, nb)), nb>>
    [] e.fn = "read_le" -> IF Len(e.bytes) < nb THEN e.out = <<"err">>
                           ELSE e.out = <<"ok", FromBytesBE(Reverse(SubSeq(e.bytes, 1, nb))), nb>>
    [] e.fn = "from_u64" -> e.out = e.a

-----------------------------------------------------------------------------
(* dispatch over the tower *)
XZero(f) == CASE f = "Fq2" -> F2Zero [] f = "Fq6" -> F6Zero [] f = "Fq12" -> F12Zero
XOne(f)  == CASE f = "Fq2" -> F2One  [] f = "Fq6" -> F6One  [] f = "Fq12" -> F12One
XAdd(f, a, b) == CASE f = "Fq2" -> F2Add(a, b) [] f = "Fq6" -> F6Add(a, b) [] f = "Fq12" -> F12Add(a, b)
XSub(f, a, b) == CASE f = "Fq2" -> F2Sub(a, b) [] f = "Fq6" -> F6Sub(a, b) [] f = "Fq12" -> F12Sub(a, b)
XMul(f, a, b) == CASE f = "Fq2" -> F2Mul(a, b) [] f = "Fq6" -> F6Mul(a, b) [] f = "Fq12" -> F12Mul(a, b)
XNeg(f, a)    == CASE f = "Fq2" -> F2Neg(a)    [] f = "Fq6" -> F6Neg(a)    [] f = "Fq12" -> F12Neg(a)
XPow(f, a, e) == CASE f = "Fq2" -> F2Pow(a, e) [] f = "Fq6" -> F6Pow(a, e) [] f = "Fq12" -> F12Pow(a, e)
XFrob(f, a, k) == \* k a BigNat; Frobenius has order 2 / 6 / 12 on the three fields
  CASE f = "Fq2"  -> F2Frob(a, ToInt(Rem(k, <<2>>)))
    [] f = "Fq6"  -> F6Frob(a, ToInt(Rem(k, <<6>>)))
    [] f = "Fq12" -> F12Frob(a, ToInt(Rem(k, <<12>>)))
(* canonical coordinates: every Fq coefficient below q *)
RECURSIVE XCanon(_,_)
XCanon(f, a) == CASE f = "Fq"   -> Lt(a, Q)
                  [] f = "Fq2"  -> XCanon("Fq", a[1]) /\ XCanon("Fq", a[2])
                  [] f = "Fq6"  -> XCanon("Fq2", a[1]) /\ XCanon("Fq2", a[2]) /\ XCanon("Fq2", a[3])
                  [] f = "Fq12" -> XCanon("Fq6", a[1]) /\ XCanon("Fq6", a[2])

JudgeExt(e) ==
  LET f == e.f IN
  CASE e.fn = "add" -> e.out = XAdd(f, e.a, e.b)
    [] e.fn = "sub" -> e.out = XSub(f, e.a, e.b)
    [] e.fn = "mul" -> e.out = XMul(f, e.a, e.b)
    [] e.fn = "neg" -> e.out = XNeg(f, e.a)
    [] e.fn = "dbl" -> e.out = XAdd(f, e.a, e.a)
    [] e.fn = "sqr" -> e.out = XMul(f, e.a, e.a)
    [] e.fn = "inv" -> IF e.a = XZero(f) THEN IsNone(e.out)
                       ELSE IsSome(e.out) /\ XCanon(f, e.out[2]) /\ XMul(f, e.a, e.out[2]) = XOne(f)
    [] e.fn = "pow" -> e.out = XPow(f, e.a, e.e)
    [] e.fn = "eq"  -> e.out = (e.a = e.b)
    [] e.fn = "ne"  -> e.out = (e.a # e.b)
    [] e.fn = "is_zero" -> e.out = (e.a = XZero(f))
    [] e.fn = "frob" -> e.out = XFrob(f, e.a, e.k)
    [] e.fn = "mul_by_nonresidue" -> e.out = (IF f = "Fq2" THEN F2MulXi(e.a) ELSE F6MulV(e.a))
    [] e.fn = "norm" -> e.out = F2Norm(e.a)
    [] e.fn = "cmp"  -> OrdOK(e.out, F2Cmp(e.a, e.b))
    [] e.fn = "sqrt" -> IF F2Legendre(e.a) = -1 THEN IsNone(e.out)
                        ELSE IsSome(e.out) /\ XCanon(f, e.out[2]) /\ F2Sqr(e.out[2]) = e.a
    [] e.fn = "legendre" -> e.out = F2Legendre(e.a)
    [] e.fn = "sgn0" -> e.out = F2Sgn0(e.a)
    [] e.fn = "negate_if" -> e.out = (IF e.s = 1 THEN F2Neg(e.a) ELSE e.a)
    [] e.fn = "ypair" ->
         LET n == F2Neg(e.a) IN
         /\ e.out.neg = n /\ e.out.cmp = F2Cmp(e.a, n)
         /\ e.out.s = F2Sgn0(e.a) /\ e.out.sn = F2Sgn0(n)
         /\ (e.a # F2Zero => e.out.cmp # 0)
    [] e.fn = "sqrt_of_square" ->
         /\ e.out.sq = F2Sqr(e.a)
         /\ IsSome(e.out.root) /\ XCanon("Fq2", e.out.root[2]) /\ F2Sqr(e.out.root[2]) = e.out.sq
         /\ e.out.leg = F2Legendre(e.out.sq) /\ e.out.leg # -1
    [] e.fn = "mul_by_1"  -> e.out = F6Mul(e.a, F6Of1(e.c1))
    [] e.fn = "mul_by_01" -> e.out = F6Mul(e.a, F6Of01(e.c0, e.c1))
    [] e.fn = "conj" -> e.out = F12Conj(e.a)
    [] e.fn = "mul_by_014" -> e.out = F12Mul(e.a, F12Of014(e.c0, e.c1, e.c4))
=============================================================================
