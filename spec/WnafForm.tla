------------------------------- MODULE WnafForm -------------------------------
(***************************************************************************)
(* The wNAF recoding loop of wnaf_form as a state machine over a           *)
(* fixed-width unsigned register (WB bits; 256 in the code), one action    *)
(* per loop iteration, transcribed from the code:                          *)
(*    while c != 0:  if c odd: u = c mod 2^(w+1); if u > 2^w: u -= 2^(w+1) *)
(*                             c -= u   (sub_noborrow / add_nocarry)       *)
(*                   else u = 0;   push u;   c >>= 1                       *)
(* Model checked for EVERY scalar below 2^(WB-1) (the property's domain    *)
(* scaled down: k < 2^255) and every window 2..WB-2.                       *)
(***************************************************************************)
EXTENDS Integers, Sequences
CONSTANTS WB, Windows
VARIABLES k, w, c, digits, done
vars == <<k, w, c, digits, done>>

RECURSIVE P2(_)
P2(n) == IF n = 0 THEN 1 ELSE 2 * P2(n - 1)

Init == /\ k \in 0..(P2(WB - 1) - 1) /\ w \in Windows
        /\ c = k /\ digits = <<>> /\ done = FALSE

Step ==
  /\ ~done
  /\ IF c = 0 THEN done' = TRUE /\ UNCHANGED <<c, digits>>
     ELSE LET u0 == IF c % 2 = 1 THEN c % P2(w + 1) ELSE 0
              u  == IF u0 > P2(w) THEN u0 - P2(w + 1) ELSE u0
          IN /\ digits' = Append(digits, u)
             /\ c' = (c - u) \div 2
             /\ done' = FALSE
  /\ UNCHANGED <<k, w>>
Next == Step \/ (done /\ UNCHANGED vars)
Spec == Init /\ [][Next]_vars

RECURSIVE Value(_,_)
Value(ds, i) == IF i > Len(ds) THEN 0 ELSE ds[i] * P2(i - 1) + Value(ds, i + 1)

(* the register never overflows its width: add_nocarry's precondition holds (needs k < 2^(WB-1)) *)
NoCarry == c >= 0 /\ c < P2(WB)
(* partial sums: the digits so far plus the remaining register reproduce the scalar *)
Partial == Value(digits, 1) + c * P2(Len(digits)) = k
(* every non-zero digit is odd and bounded by the window: |d| < 2^w *)
DigitsOK == \A i \in 1..Len(digits) : digits[i] # 0 => (digits[i] % 2 = 1 /\ digits[i] < P2(w) /\ -digits[i] < P2(w))
(* non-adjacency: a non-zero digit is followed by at least w zero digits *)
NonAdjacent == \A i, j \in 1..Len(digits) : (i < j /\ j <= i + w /\ digits[i] # 0) => digits[j] = 0
(* termination with the scalar's value; at most WB + 1 digits *)
Final == done => (Value(digits, 1) = k /\ Len(digits) <= WB + 1)
=============================================================================
