-------------------------------- MODULE Sha256 --------------------------------
(***************************************************************************)
(* FIPS 180-4 SHA-256 and SHA-224 on byte strings, in plain TLA+.  A       *)
(* 32-bit word is a pair <<hi, lo>> of 16-bit halves (TLC integers are     *)
(* signed 32-bit).  With this module the hash of expand_message_xmd is no  *)
(* longer uninterpreted for the SHA-256/SHA-224 instances: every recorded  *)
(* <<input, output>> pair of the hash graph is recomputed, and XmdSha256   *)
(* is a closed function of (msg, dst, len) that MC_Math anchors against    *)
(* published expand_message_xmd vectors.                                   *)
(***************************************************************************)
EXTENDS Naturals, Sequences, Bitwise

K256 == <<
  <<17034, 12184>>, <<28983, 17553>>, <<46528, 64463>>, <<59829, 56229>>,
  <<14678, 49755>>, <<23025, 4593>>, <<37439, 33444>>, <<43804, 24277>>,
  <<55303, 43672>>, <<4739, 23297>>, <<9265, 34238>>, <<21772, 32195>>,
  <<29374, 23924>>, <<32990, 45566>>, <<39900, 1703>>, <<49563, 61812>>,
  <<58523, 27073>>, <<61374, 18310>>, <<4033, 40390>>, <<9228, 41420>>,
  <<11753, 11375>>, <<19060, 33962>>, <<23728, 43484>>, <<30457, 35034>>,
  <<38974, 20818>>, <<43057, 50797>>, <<45059, 10184>>, <<48985, 32711>>,
  <<50912, 3059>>, <<54695, 37191>>, <<1738, 25425>>, <<5161, 10599>>,
  <<10167, 2693>>, <<11803, 8504>>, <<19756, 28156>>, <<21304, 3347>>,
  <<25866, 29524>>, <<30314, 2747>>, <<33218, 51502>>, <<37490, 11397>>,
  <<41663, 59553>>, <<43034, 26187>>, <<49739, 35696>>, <<51052, 20899>>,
  <<53650, 59417>>, <<54937, 1572>>, <<62478, 13701>>, <<4202, 41072>>,
  <<6564, 49430>>, <<7735, 27656>>, <<10056, 30540>>, <<13488, 48309>>,
  <<14620, 3251>>, <<20184, 43594>>, <<23452, 51791>>, <<26670, 28659>>,
  <<29839, 33518>>, <<30885, 25455>>, <<33992, 30740>>, <<36039, 520>>,
  <<37054, 65530>>, <<42064, 27883>>, <<48889, 41975>>, <<50801, 30962>> >>
H256 == <<
  <<27145, 58983>>, <<47975, 44677>>, <<15470, 62322>>, <<42319, 62778>>,
  <<20750, 21119>>, <<39685, 26764>>, <<8067, 55723>>, <<23520, 52505>> >>
H224 == <<
  <<49413, 40664>>, <<13948, 54535>>, <<12400, 56599>>, <<63246, 22841>>,
  <<65472, 2865>>, <<26712, 5393>>, <<25849, 36775>>, <<48890, 20388>> >>

ShP2(n) == 2 ^ n
WXor(a, b) == <<a[1] ^^ b[1], a[2] ^^ b[2]>>
WAnd(a, b) == <<a[1] & b[1], a[2] & b[2]>>
WNot(a) == <<65535 - a[1], 65535 - a[2]>>
WAdd(a, b) == LET lo == a[2] + b[2] IN <<(a[1] + b[1] + lo \div 65536) % 65536, lo % 65536>>
(* rotate / shift right by n in 0..31 *)
Rot16(w, n) == IF n = 0 THEN w
               ELSE <<w[1] \div ShP2(n) + (w[2] % ShP2(n)) * ShP2(16 - n), w[2] \div ShP2(n) + (w[1] % ShP2(n)) * ShP2(16 - n)>>
Rotr(w, n) == IF n >= 16 THEN Rot16(<<w[2], w[1]>>, n - 16) ELSE Rot16(w, n)
ShR(w, n) == IF n >= 16 THEN <<0, w[1] \div ShP2(n - 16)>>
             ELSE <<w[1] \div ShP2(n), w[2] \div ShP2(n) + (w[1] % ShP2(n)) * ShP2(16 - n)>>

Ch(x, y, z)  == WXor(WAnd(x, y), WAnd(WNot(x), z))
Maj(x, y, z) == WXor(WXor(WAnd(x, y), WAnd(x, z)), WAnd(y, z))
BSig0(x) == WXor(WXor(Rotr(x, 2), Rotr(x, 13)), Rotr(x, 22))
BSig1(x) == WXor(WXor(Rotr(x, 6), Rotr(x, 11)), Rotr(x, 25))
SSig0(x) == WXor(WXor(Rotr(x, 7), Rotr(x, 18)), ShR(x, 3))
SSig1(x) == WXor(WXor(Rotr(x, 17), Rotr(x, 19)), ShR(x, 10))

(* padding: 0x80, zeros to 56 mod 64, the bit length as 8 big-endian bytes (length < 2^28 bytes) *)
PadLen(n) == LET r == (n + 1) % 64 IN IF r <= 56 THEN 56 - r ELSE 120 - r
Pad(m) == LET n == Len(m)
              bits == n * 8
          IN m \o <<128>> \o [i \in 1..PadLen(n) |-> 0]
               \o <<0, 0, 0, 0, bits \div 16777216, (bits \div 65536) % 256, (bits \div 256) % 256, bits % 256>>

(* message schedule of the 64-byte block starting after offset o (built left to right: TLC does *)
(* not memoise recursively defined functions)                                                   *)
RECURSIVE SchedH(_,_)
SchedH(W, t) ==
  IF t > 64 THEN W
  ELSE SchedH(Append(W, WAdd(WAdd(SSig1(W[t - 2]), W[t - 7]), WAdd(SSig0(W[t - 15]), W[t - 16]))), t + 1)
Sched(p, o) ==
  SchedH([t \in 1..16 |-> LET j == o + 4 * (t - 1) IN <<p[j + 1] * 256 + p[j + 2], p[j + 3] * 256 + p[j + 4]>>], 17)

RECURSIVE Rounds(_,_,_)
Rounds(s, W, t) ==
  IF t > 64 THEN s
  ELSE LET t1 == WAdd(WAdd(WAdd(s[8], BSig1(s[5])), WAdd(Ch(s[5], s[6], s[7]), K256[t])), W[t])
           t2 == WAdd(BSig0(s[1]), Maj(s[1], s[2], s[3]))
       IN Rounds(<<WAdd(t1, t2), s[1], s[2], s[3], WAdd(s[4], t1), s[5], s[6], s[7]>>, W, t + 1)

(* one compression: state h (8 words) and block at offset o *)
Compress(h, p, o) ==
  LET s == Rounds(h, Sched(p, o), 1) IN [i \in 1..8 |-> WAdd(h[i], s[i])]

RECURSIVE Blocks(_,_,_)
Blocks(h, p, o) == IF o >= Len(p) THEN h ELSE Blocks(Compress(h, p, o), p, o + 64)

WordBytes(w) == <<w[1] \div 256, w[1] % 256, w[2] \div 256, w[2] % 256>>
Digest(iv, m, nwords) ==
  LET h == Blocks(iv, Pad(m), 0) IN
  [i \in 1..(4 * nwords) |-> WordBytes(h[((i - 1) \div 4) + 1])[((i - 1) % 4) + 1]]
SHA256(m) == Digest(H256, m, 8)
SHA224(m) == Digest(H224, m, 7)
=============================================================================
