------------------------------ MODULE Pippenger ------------------------------
(***************************************************************************)
(* The bucket method of sum_of_products_pippinger as a state machine,      *)
(* parametric in the word size, the number of words and the window, so     *)
(* that it can be model checked for ALL scalars at small parameters        *)
(* (MC_Pippenger) and stepped at the real parameters (WORD = 64, NW = 4)   *)
(* against the per-window records of the implementation (JPip in Trace).   *)
(*                                                                         *)
(* One loop iteration of the code is three actions:                        *)
(*   Scatter : res := 2^numDoubles res; every scalar's window digit        *)
(*             selects a bucket, the point is added to it                  *)
(*   Reduce  : running sum from the highest non-empty bucket down;         *)
(*             buckets are cleared                                         *)
(*   Advance : next window position and number of doublings, or Done       *)
(* The digit extraction is written twice: CodeDigit transcribes the        *)
(* masks and shifts of the three branches of the code (whole window inside *)
(* a word / straddling the previous word / short last window); WinDigit is *)
(* the arithmetic meaning "bits lo..bsi of k".  DigitsAgree is checked for *)
(* all scalars.  Points are elements of Z_N (the group law itself is C01). *)
(***************************************************************************)
EXTENDS Integers, Sequences, FiniteSets, PipCtl

CONSTANTS WORD,      \* bits per word            (64 in the code)
          NW,        \* words per scalar         (4)
          C,         \* window size              (1..20)
          N,         \* order of the toy group Z_N
          PointChoices, \* set of point tuples (sequences of elements of 0..N-1)
          Scalars(_)    \* set of admissible scalar tuples for a given length

VARIABLES Points,    \* the points  (chosen in Init)
          ks,        \* the scalars (chosen in Init)
          bsi,       \* bit_sequence_index: top bit of the current window
          nd,        \* num_doubles to apply before the current window
          res, buckets, phase,
          ndsum      \* ghost: total number of doublings so far

vars == <<Points, ks, bsi, nd, res, buckets, phase, ndsum>>

RECURSIVE Pow2(_)
Pow2(n) == IF n = 0 THEN 1 ELSE 2 * Pow2(n - 1)
TopBit == WORD * NW - 1
Edge == C - 1
Word(k, j) == (k \div Pow2(WORD * j)) % Pow2(WORD)          \* j-th word, 0-based
And(x, m1) == x % (m1 + 1)                                   \* x & m for m = 2^t - 1
Shr(x, s) == x \div Pow2(s)
Shl(x, s) == x * Pow2(s)
Min(a, b) == IF a < b THEN a ELSE b

(* the code's three branches *)
CodeDigit(k, b) ==
  LET wi == b \div WORD
      bi == b % WORD
  IN IF bi < Edge
     THEN IF wi = 0
          THEN And(Word(k, 0), Pow2(bi + 1) - 1)                        \* short last window
          ELSE LET hmask  == Pow2(bi + 1) - 1                           \* straddles word wi-1
                   hshift == Edge - bi
                   lmask  == Pow2(hshift) - 1
                   lshift == WORD - hshift
               IN Shl(And(Word(k, wi), hmask), hshift) + And(Shr(Word(k, wi - 1), lshift), lmask)
     ELSE And(Shr(Word(k, wi), bi - Edge), Pow2(C) - 1)                 \* inside one word

(* meaning: the bits lo..b of k, lo = max(b - C + 1, 0) *)
WinLo(b) == PcWinLo(C, b)
WinDigit(k, b) == (k \div Pow2(WinLo(b))) % Pow2(b - WinLo(b) + 1)

n == Len(Points)
Idx == 1..n

Init ==
  /\ Points \in PointChoices
  /\ ks \in Scalars(Len(Points))
  /\ bsi = TopBit /\ nd = 0 /\ res = 0 /\ ndsum = 0
  /\ buckets = [j \in 0..(Pow2(C) - 1) |-> 0]
  /\ phase = "scatter"

(* sum of the points whose digit is j *)
RECURSIVE BucketSum(_,_,_)
BucketSum(j, i, b) == IF i > n THEN 0
                      ELSE ((IF CodeDigit(ks[i], b) = j THEN Points[i] ELSE 0) + BucketSum(j, i + 1, b)) % N

Scatter ==
  /\ phase = "scatter"
  /\ res' = (res * Pow2(nd)) % N
  /\ ndsum' = ndsum + nd
  /\ buckets' = [j \in DOMAIN buckets |-> IF j = 0 THEN 0 ELSE (buckets[j] + BucketSum(j, 1, bsi)) % N]
  /\ phase' = "reduce"
  /\ UNCHANGED <<Points, ks, bsi, nd>>

MaxBucket == LET S == {CodeDigit(ks[i], bsi) : i \in Idx} IN
             IF S = {} THEN 0 ELSE CHOOSE m \in S : \A x \in S : x <= m

(* res += buckets[max]; for i = max-1 .. 1: buckets[i] += buckets[i+1]; res += buckets[i] *)
RECURSIVE RunSum(_,_,_)
RunSum(i, acc, r) == \* acc = running bucket sum above i, r = res so far
  IF i = 0 THEN r
  ELSE LET a2 == (acc + buckets[i]) % N IN RunSum(i - 1, a2, (r + a2) % N)

Reduce ==
  /\ phase = "reduce"
  /\ res' = RunSum(MaxBucket, 0, res)
  /\ buckets' = [j \in DOMAIN buckets |-> 0]
  /\ phase' = "advance"
  /\ UNCHANGED <<Points, ks, bsi, nd, ndsum>>

Advance ==
  /\ phase = "advance"
  /\ IF PcLast(C, bsi)
     THEN phase' = "done" /\ UNCHANGED <<bsi, nd>>
     ELSE /\ bsi' = PcNextBsi(C, bsi)
          /\ nd' = PcNextNd(C, bsi)
          /\ phase' = "scatter"
  /\ UNCHANGED <<Points, ks, res, buckets, ndsum>>

Next == Scatter \/ Reduce \/ Advance
Spec == Init /\ [][Next]_vars

-----------------------------------------------------------------------------
RECURSIVE Dot(_)
Dot(i) == IF i > n THEN 0 ELSE (ks[i] * Points[i] + Dot(i + 1)) % N

(* the result is the multi-scalar product *)
Correct == phase = "done" => res = Dot(1)
(* the code's digit extraction means "bits lo..bsi of the scalar" at every window position reached *)
DigitsAgree == \A i \in Idx : CodeDigit(ks[i], bsi) = WinDigit(ks[i], bsi)
(* no bucket survives a window *)
BucketsCleared == phase \in {"scatter", "advance", "done"} => \A j \in DOMAIN buckets : buckets[j] = 0
(* the windows tile the scalar: the doublings applied so far equal the number of bits  *)
(* between the low end of the first window and the low end of the current one           *)
Tiling == phase \in {"reduce", "advance", "done"} => ndsum + WinLo(bsi) = WinLo(TopBit)
(* inductive meaning of res: after a window is reduced, res is the multi-scalar product  *)
(* of the scalars with the bits below the window cut off                                 *)
RECURSIVE DotHigh(_,_)
DotHigh(i, lo) == IF i > n THEN 0 ELSE ((ks[i] \div Pow2(lo)) * Points[i] + DotHigh(i + 1, lo)) % N
ResInv == phase \in {"advance", "done"} => res = DotHigh(1, WinLo(bsi))
TypeOK == /\ bsi \in 0..TopBit /\ nd \in 0..(TopBit + 1)
          /\ phase \in {"scatter", "reduce", "advance", "done"}
=============================================================================
