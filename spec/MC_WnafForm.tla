---- MODULE MC_WnafForm ----
EXTENDS WnafForm
====
