SPECIFICATION Spec
CONSTANTS
  N = 31
  Bases = {1, 5}
  ScalarSet = {0, 1, 9, 100}
  NumScalars = {1, 2, 30}
  WinForNum <- MCWinForNum
  WinForScalar <- MCWinForScalar
INVARIANTS FreshEquivalent WindowsInRange
CONSTRAINT Bounded
CHECK_DEADLOCK FALSE
