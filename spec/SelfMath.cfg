
