------------------------------- MODULE JStream -------------------------------
(***************************************************************************)
(* Stream (de)serialization (C19) as a machine: a write buffer, a read     *)
(* buffer and a cursor.  Writers append exactly Size bytes equal to the    *)
(* encoding; a successful read consumes exactly Size bytes and returns the *)
(* value those bytes encode; truncated input, a compression flag that      *)
(* contradicts the data, non-reduced field values and every point encoding *)
(* the checked decoder rejects give an error, never a value.               *)
(* Field layouts: Fr = 32 bytes big-endian; Fq12 = its twelve Fq           *)
(* coefficients, 48 bytes big-endian each, in tower order.                 *)
(***************************************************************************)
EXTENDS JEncoding

InitStream == [w |-> <<>>, rd |-> <<>>, pos |-> 0]

GroupOf(ty) == IF ty \in {"G1", "G1Affine"} THEN "G1" ELSE "G2"
IsPointTy(ty) == ty \in {"G1", "G1Affine", "G2", "G2Affine"}
IsProjTy(ty) == ty \in {"G1", "G2"}
SizeOf(ty, c) == CASE ty = "Fr" -> 32 [] ty = "Fq12" -> 576
                   [] OTHER -> EncLen(GroupOf(ty), IF c THEN "c" ELSE "u")

Fq12Flat(v) == <<v[1][1][1], v[1][1][2], v[1][2][1], v[1][2][2], v[1][3][1], v[1][3][2],
                 v[2][1][1], v[2][1][2], v[2][2][1], v[2][2][2], v[2][3][1], v[2][3][2]>>
RECURSIVE ConcatAll(_,_)
ConcatAll(s, i) == IF i > Len(s) THEN <<>> ELSE s[i] \o ConcatAll(s, i + 1)
Fq12Bytes(v) == LET f == Fq12Flat(v) IN ConcatAll([i \in 1..12 |-> ToBytesBE(f[i], 48)], 1)
Fq12Of(b) == LET c == [i \in 1..12 |-> FromBytesBE(Chunk(b, i))] IN
   << << <<c[1], c[2]>>, <<c[3], c[4]>>, <<c[5], c[6]>> >>,
      << <<c[7], c[8]>>, <<c[9], c[10]>>, <<c[11], c[12]>> >> >>

(* the point a logged value denotes *)
PointOf(ty, v) == IF IsProjTy(ty) THEN GOfJac(GroupOf(ty), v) ELSE OfAffRec(v)

SerBytes(ty, v, c) ==
  CASE ty = "Fr" -> ToBytesBE(v, 32)
    [] ty = "Fq12" -> Fq12Bytes(v)
    [] OTHER -> IF c THEN EncodeC(GroupOf(ty), PointOf(ty, v)) ELSE EncodeU(GroupOf(ty), PointOf(ty, v))

(* <<TRUE, abstract value>> or <<FALSE>> for a chunk of exactly Size bytes *)
Deser(ty, chunk, c) ==
  CASE ty = "Fr" -> LET n == FromBytesBE(chunk) IN IF Lt(n, R) THEN <<TRUE, n>> ELSE <<FALSE>>
    [] ty = "Fq12" -> IF \A i \in 1..12 : Lt(FromBytesBE(Chunk(chunk, i)), Q)
                      THEN <<TRUE, Fq12Of(chunk)>> ELSE <<FALSE>>
    [] OTHER -> IF (FlagC(chunk) = 1) # c THEN <<FALSE>>
                ELSE LET d == Decode(GroupOf(ty), IF c THEN "c" ELSE "u", chunk, TRUE) IN
                     IF d[1] = "ok" THEN <<TRUE, d[2]>> ELSE <<FALSE>>

ValueMatches(ty, lib, abs) ==
  IF ~IsPointTy(ty) THEN lib = abs
  ELSE IF IsProjTy(ty) THEN GRep(GroupOf(ty), lib, abs)
  ELSE AffRep(lib, abs)

(* StStep(st, e) = <<accepted, st'>> *)
StStep(st, e) ==
  CASE e.fn = "reset" -> <<TRUE, InitStream>>
    [] e.fn = "set" -> <<TRUE, [st EXCEPT !.rd = e.bytes, !.pos = 0]>>
    [] e.fn = "flip" ->
         LET t == IF "trunc" \in DOMAIN e
                  THEN SubSeq(st.w, 1, IF e.trunc < Len(st.w) THEN e.trunc ELSE Len(st.w)) ELSE st.w
             b == IF "append" \in DOMAIN e THEN t \o e.append ELSE t
         IN <<e.out = b, [st EXCEPT !.rd = b, !.pos = 0]>>
    [] e.fn = "write" ->
         LET b == SerBytes(e.ty, e.v, e.c) IN
         << /\ e.out.res = "ok"
            /\ e.out.bytes = b
            /\ Len(b) = SizeOf(e.ty, e.c)
            \* whatever the sink: all the bytes in order when it takes them in pieces, an error when
            \* it cannot hold them
            /\ ("sinks" \in DOMAIN e.out => \A k \in 1..Len(e.out.sinks) :
                  IF e.out.sinks[k].kind = "chunked" THEN e.out.sinks[k].res = "ok" /\ e.out.sinks[k].bytes = b
                  ELSE e.out.sinks[k].res = "err"),
            [st EXCEPT !.w = st.w \o b] >>
    [] e.fn = "read" ->
         LET need == SizeOf(e.ty, e.c)
             rem  == Len(st.rd) - st.pos
         IN IF rem < need
            THEN \* truncated input: an error; where the cursor stops is not specified
                 << e.out.res = <<"err">> /\ e.out.pos >= st.pos /\ e.out.pos <= Len(st.rd),
                    [st EXCEPT !.pos = e.out.pos] >>
            ELSE LET d == TLCEval(Deser(e.ty, SubSeq(st.rd, st.pos + 1, st.pos + need), e.c)) IN
                 IF d[1]
                 THEN << /\ e.out.res[1] = "ok"
                         /\ ValueMatches(e.ty, e.out.res[2], d[2])
                         /\ e.out.consumed = need /\ e.out.pos = st.pos + need,
                         [st EXCEPT !.pos = st.pos + need] >>
                 ELSE << e.out.res = <<"err">> /\ e.out.pos >= st.pos /\ e.out.pos <= Len(st.rd),
                         [st EXCEPT !.pos = e.out.pos] >>
=============================================================================
