---- MODULE MC_Concurrent ----
EXTENDS Concurrent
MCInstances == {<<1, 1>>, <<1, 2>>, <<2, 1>>}
====
