---- MODULE MC_Stream ----
EXTENDS StreamMachine
MCSize(t) == IF t = "A" THEN 2 ELSE 3
====
