SPECIFICATION Spec
CONSTANTS
  Types = {"A", "B"}
  Size <- MCSize
  MaxItems = 3
INVARIANTS ExactConsumption RoundTrip NoValueFromTruncation CursorInRange
CHECK_DEADLOCK FALSE
