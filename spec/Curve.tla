-------------------------------- MODULE Curve --------------------------------
(***************************************************************************)
(* The group of points of y^2 = x^3 + CA x + CB over a field given by its  *)
(* operations: affine chord-and-tangent law, textbook case analysis.       *)
(* O (the identity) is <<>>, a finite point is <<x, y>>.                   *)
(***************************************************************************)
EXTENDS BigNat, Integers, Sequences
CONSTANTS FZero, FOne, FAdd(_,_), FSub(_,_), FMul(_,_), FNeg(_), FInv(_), CA, CB

O == <<>>
IsO(P) == Len(P) = 0
Pt(x, y) == <<x, y>>

LOCAL FSqr(a) == FMul(a, a)
LOCAL FDbl(a) == FAdd(a, a)
LOCAL FTpl(a) == FAdd(FAdd(a, a), a)

(* right-hand side x^3 + A x + B *)
Rhs(x) == FAdd(FAdd(FMul(FSqr(x), x), FMul(CA, x)), CB)
OnCurve(P) == IsO(P) \/ FSqr(P[2]) = Rhs(P[1])

PNeg(P) == IF IsO(P) THEN O ELSE <<P[1], FNeg(P[2])>>

(* tangent:  lambda = (3 x^2 + A) / (2 y);  a point with y = 0 has order 2 *)
PDbl(P) ==
  IF IsO(P) THEN O
  ELSE IF P[2] = FZero THEN O
  ELSE LET l  == FMul(FAdd(FTpl(FSqr(P[1])), CA), FInv(FDbl(P[2])))
           x3 == FSub(FSqr(l), FDbl(P[1]))
       IN <<x3, FSub(FMul(l, FSub(P[1], x3)), P[2])>>

(* chord:  lambda = (y2 - y1) / (x2 - x1) *)
PAdd(P, S) ==
  IF IsO(P) THEN S
  ELSE IF IsO(S) THEN P
  ELSE IF P[1] = S[1]
       THEN IF P[2] = S[2] THEN PDbl(P) ELSE O        \* same x: equal or opposite
       ELSE LET l  == FMul(FSub(S[2], P[2]), FInv(FSub(S[1], P[1])))
                x3 == FSub(FSub(FSqr(l), P[1]), S[1])
            IN <<x3, FSub(FMul(l, FSub(P[1], x3)), P[2])>>

PSub(P, S) == PAdd(P, PNeg(S))

(* [k]P, k a BigNat: double-and-add from the most significant bit *)
RECURSIVE PMulH(_,_,_,_)
PMulH(P, k, i, acc) ==
  IF i < 0 THEN acc
  ELSE LET d == PDbl(acc)
       IN PMulH(P, k, i-1, IF Bit(k, i) = 1 THEN PAdd(d, P) ELSE d)
PMul(P, k) == PMulH(P, k, NumBits(k) - 1, O)

(* small signed integer multiples *)
PMulInt(P, n) == IF n >= 0 THEN PMul(P, FromInt(n)) ELSE PNeg(PMul(P, FromInt(-n)))

(***************************************************************************)
(* Jacobian triples <<X, Y, Z>>: Z = 0 is the identity (whatever X, Y),    *)
(* otherwise the affine point (X/Z^2, Y/Z^3).  Represents is checked by    *)
(* cross-multiplication so that no inversion of logged data is needed.     *)
(***************************************************************************)
Represents(J, P) ==
  IF J[3] = FZero THEN IsO(P)
  ELSE /\ ~IsO(P)
       /\ LET z2 == FSqr(J[3]) IN
          /\ J[1] = FMul(P[1], z2)
          /\ J[2] = FMul(P[2], FMul(z2, J[3]))
(* the point a triple denotes *)
OfJac(J) ==
  IF J[3] = FZero THEN O
  ELSE LET zi == FInv(J[3]) zi2 == FSqr(zi)
       IN <<FMul(J[1], zi2), FMul(J[2], FMul(zi2, zi))>>
(* an affine record {x, y, inf} as logged by the harness *)
OfAff(x, y, inf) == IF inf THEN O ELSE <<x, y>>
=============================================================================
