SPECIFICATION Spec
CONSTANTS
  WB = 12
  Windows = {2, 3, 4, 5, 6, 9, 10}
INVARIANTS NoCarry Partial DigitsOK NonAdjacent Final
CHECK_DEADLOCK FALSE
