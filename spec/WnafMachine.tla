----------------------------- MODULE WnafMachine -----------------------------
(***************************************************************************)
(* A reusable wNAF context (C02): two buffers that survive between calls - *)
(* the window table (odd multiples of some base, for some window size) and *)
(* the digit string (recoding of some scalar, for some window size).       *)
(* Public calls either stage a base first and then take scalars, or stage  *)
(* a scalar first and then take bases; `shared` variants run the second    *)
(* stage on a fresh buffer.  Evaluating a table against a digit string is  *)
(* meaningful only if both were built for the same window; it then yields  *)
(* (scalar of the digits) * (base of the table).                           *)
(* Group elements are integers mod N, scalars small naturals: the group    *)
(* law and the recoding itself are judged elsewhere (C01, WnafForm).       *)
(***************************************************************************)
EXTENDS Integers, Sequences

CONSTANTS N, Bases, ScalarSet, NumScalars,
          WinForNum(_),        \* recommended window for a number of scalars
          WinForScalar(_)      \* recommended window for a scalar

VARIABLES tbl,      \* [base, win] of the table buffer, or Empty
          dig,      \* [k, win] of the digit buffer, or Empty
          last,     \* results of the last call: sequence of [got, want]
          depth

vars == <<tbl, dig, last, depth>>
Empty == [none |-> TRUE]
Garbage == -1

Eval(t, d) == IF t = Empty \/ d = Empty THEN Garbage
              ELSE IF t.win # d.win THEN Garbage
              ELSE (d.k * t.base) % N

Init == tbl = Empty /\ dig = Empty /\ last = <<>> /\ depth = 0

(* ctx.base(P, n) then .scalar(k1), .scalar(k2) *)
BaseScalars(P, n, k1, k2) ==
  LET t  == [base |-> P, win |-> WinForNum(n)]
      d1 == [k |-> k1, win |-> t.win]
      d2 == [k |-> k2, win |-> t.win]
  IN /\ tbl' = t /\ dig' = d2
     /\ last' = << [got |-> Eval(t, d1), want |-> (k1 * P) % N], [got |-> Eval(t, d2), want |-> (k2 * P) % N] >>

(* ctx.scalar(k) then .base(P1), .base(P2) *)
ScalarBases(k, P1, P2) ==
  LET d  == [k |-> k, win |-> WinForScalar(k)]
      t1 == [base |-> P1, win |-> d.win]
      t2 == [base |-> P2, win |-> d.win]
  IN /\ dig' = d /\ tbl' = t2
     /\ last' = << [got |-> Eval(t1, d), want |-> (k * P1) % N], [got |-> Eval(t2, d), want |-> (k * P2) % N] >>

(* ctx.base(P, n).shared(): the digit buffer of the context is not touched *)
BaseShared(P, n, k1) ==
  LET t == [base |-> P, win |-> WinForNum(n)]
      d == [k |-> k1, win |-> t.win]
  IN /\ tbl' = t /\ UNCHANGED dig
     /\ last' = << [got |-> Eval(t, d), want |-> (k1 * P) % N] >>

(* ctx.scalar(k).shared(): the table buffer of the context is not touched *)
ScalarShared(k, P1) ==
  LET d == [k |-> k, win |-> WinForScalar(k)]
      t == [base |-> P1, win |-> d.win]
  IN /\ dig' = d /\ UNCHANGED tbl
     /\ last' = << [got |-> Eval(t, d), want |-> (k * P1) % N] >>

New == tbl' = Empty /\ dig' = Empty /\ last' = <<>>

Next ==
  /\ depth' = depth + 1
  /\ \/ New
     \/ \E P \in Bases, n \in NumScalars, k1, k2 \in ScalarSet : BaseScalars(P, n, k1, k2)
     \/ \E k \in ScalarSet, P1, P2 \in Bases : ScalarBases(k, P1, P2)
     \/ \E P \in Bases, n \in NumScalars, k \in ScalarSet : BaseShared(P, n, k)
     \/ \E k \in ScalarSet, P \in Bases : ScalarShared(k, P)

Spec == Init /\ [][Next]_vars

(* every result of every call is [k]P for that call's arguments: what a fresh context returns *)
FreshEquivalent == \A i \in 1..Len(last) : last[i].got = last[i].want
(* the buffers are a function of the last staging calls only (no staleness can be observed) *)
WindowsInRange == /\ (tbl # Empty => tbl.win \in 2..22)
                  /\ (dig # Empty => dig.win \in 2..22)
=============================================================================
