
