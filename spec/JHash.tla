--------------------------------- MODULE JHash ---------------------------------
(***************************************************************************)
(* RFC 9380 section 5: expand_message_xmd / expand_message_xof over an     *)
(* UNINTERPRETED hash H, given as the finite graph recorded by the traced  *)
(* hash wrapper (a list of <<input bytes, output bytes>>), and             *)
(* hash_to_field.  What is judged is that the library feeds H exactly the  *)
(* strings the RFC prescribes and assembles its outputs as prescribed.     *)
(***************************************************************************)
EXTENDS JMap, Bitwise, Sha256

HasInput(H, inp) == \E i \in 1..Len(H) : H[i][1] = inp
HOut(H, inp) == H[CHOOSE i \in 1..Len(H) : H[i][1] = inp][2]
(* for an XOF the same input may be read to different lengths; pick by length too *)
HasInputLen(H, inp, n) == \E i \in 1..Len(H) : H[i][1] = inp /\ Len(H[i][2]) = n
HOutLen(H, inp, n) == H[CHOOSE i \in 1..Len(H) : H[i][1] = inp /\ Len(H[i][2]) = n][2]
(* the record is the graph of a function *)
HFunctional(H) == \A i, j \in 1..Len(H) :
                     (H[i][1] = H[j][1] /\ Len(H[i][2]) = Len(H[j][2])) => H[i][2] = H[j][2]

I2OSP1(n) == <<n>>
I2OSP2(n) == <<n \div 256, n % 256>>
StrXor(a, b) == [i \in 1..Len(a) |-> a[i] ^^ b[i]]
ZeroBytes(n) == [i \in 1..n |-> 0]

(* digest size b and input block size s of the Merkle-Damgard hashes used (FIPS 180-4) *)
OutBytes(x)   == CASE x = "xmd-toy" -> 32 [] x = "xmd-sha256" -> 32 [] x = "xmd-sha512" -> 64 [] x = "xmd-sha224" -> 28 [] x = "xmd-sha384" -> 48
BlockBytes(x) == CASE x = "xmd-toy" -> 64 [] x = "xmd-sha256" -> 64 [] x = "xmd-sha512" -> 128 [] x = "xmd-sha224" -> 64 [] x = "xmd-sha384" -> 128
IsXmd(x) == x \in {"xmd-toy", "xmd-sha256", "xmd-sha512", "xmd-sha224", "xmd-sha384"}
Ell(x, len) == (len + OutBytes(x) - 1) \div OutBytes(x)

(* <<TRUE, bytes>> if every prescribed hash input is in the graph, else <<FALSE>> *)
RECURSIVE XmdBlocks(_,_,_,_,_,_)
XmdBlocks(H, b0, dstp, prev, i, ell) ==
  \* returns the concatenation b_i .. b_ell, or <<"missing">> marker as first element
  IF i > ell THEN <<>>
  ELSE LET inp == (IF i = 1 THEN b0 ELSE StrXor(b0, prev)) \o I2OSP1(i) \o dstp IN
       IF ~HasInput(H, inp) THEN <<-1>>
       ELSE LET bi == HOut(H, inp)
                rest == XmdBlocks(H, b0, dstp, bi, i + 1, ell)
            IN IF Len(rest) > 0 /\ rest[1] = -1 THEN <<-1>> ELSE bi \o rest

XmdOut(x, H, msg, dst, len) ==
  LET dstp == dst \o I2OSP1(Len(dst))
      mp   == ZeroBytes(BlockBytes(x)) \o msg \o I2OSP2(len) \o I2OSP1(0) \o dstp
      ell  == Ell(x, len)
  IN IF ell = 0 THEN <<TRUE, <<>>>>
     ELSE IF ~HasInput(H, mp) THEN <<FALSE>>
     ELSE LET u == XmdBlocks(H, HOut(H, mp), dstp, <<>>, 1, ell) IN
          IF Len(u) > 0 /\ u[1] = -1 THEN <<FALSE>> ELSE <<TRUE, SubSeq(u, 1, len)>>

XofOut(H, msg, dst, len) ==
  LET mp == msg \o I2OSP2(len) \o dst \o I2OSP1(Len(dst)) IN
  IF len = 0 THEN <<TRUE, <<>>>>
  ELSE IF HasInputLen(H, mp, len) THEN <<TRUE, HOutLen(H, mp, len)>> ELSE <<FALSE>>

ExpandOut(x, H, msg, dst, len) == IF IsXmd(x) THEN XmdOut(x, H, msg, dst, len) ELSE XofOut(H, msg, dst, len)

(***************************************************************************)
(* For the SHA-256 / SHA-224 instances the hash is INTERPRETED (module     *)
(* Sha256, FIPS 180-4 in TLA+): every recorded pair of the graph must be   *)
(* the digest of its input (inputs up to HashCheckMax bytes are recomputed;*)
(* 15 ms per 64-byte block), which makes the accepted output the closed    *)
(* function XmdClosed(msg, dst, len) that MC_Math anchors against the      *)
(* published expand_message_xmd vectors.                                   *)
(***************************************************************************)
HashCheckMax == 2048
Hs(x, inp) == IF x = "xmd-sha256" THEN SHA256(inp) ELSE SHA224(inp)
Interpreted(x) == x \in {"xmd-sha256", "xmd-sha224"}
GraphIsHash(x, H) ==
  Interpreted(x) => \A i \in 1..Len(H) : Len(H[i][1]) <= HashCheckMax => H[i][2] = Hs(x, H[i][1])

RECURSIVE XmdBlocksC(_,_,_,_,_,_)
XmdBlocksC(x, b0, dstp, prev, i, ell) ==
  IF i > ell THEN <<>>
  ELSE LET bi == Hs(x, (IF i = 1 THEN b0 ELSE StrXor(b0, prev)) \o I2OSP1(i) \o dstp)
       IN bi \o XmdBlocksC(x, b0, dstp, bi, i + 1, ell)
XmdClosed(x, msg, dst, len) ==
  LET dstp == dst \o I2OSP1(Len(dst))
      mp   == ZeroBytes(BlockBytes(x)) \o msg \o I2OSP2(len) \o I2OSP1(0) \o dstp
  IN IF len = 0 THEN <<>> ELSE SubSeq(XmdBlocksC(x, Hs(x, mp), dstp, <<>>, 1, Ell(x, len)), 1, len)

(* the domain of the property: |dst| <= 255, len <= 65535; XMD aborts iff ell > 255 *)
InDomain(e, len) == Len(e.dst) <= 255 /\ len <= 65535
MustAbort(x, len) == IsXmd(x) /\ Ell(x, len) > 255

(* requests beyond 255 output blocks - however large the requested length - abort (XMD) *)
HugeAbort(e) == IsXmd(e.x) /\ Lt(FromInt(255 * OutBytes(e.x)), e.lenbig)
JudgeExpand(e) ==
  IF "lenbig" \in DOMAIN e THEN (Len(e.dst) <= 255 /\ HugeAbort(e)) => e.out.aborted
  ELSE
  InDomain(e, e.len) =>
    IF MustAbort(e.x, e.len) THEN e.out.aborted
    ELSE LET r == TLCEval(ExpandOut(e.x, e.out.H, e.msg, e.dst, e.len)) IN
         /\ ~e.out.aborted
         /\ HFunctional(e.out.H)
         /\ GraphIsHash(e.x, e.out.H)
         /\ (IsXmd(e.x) => \A i \in 1..Len(e.out.H) : Len(e.out.H[i][2]) = OutBytes(e.x))
         /\ r[1] /\ e.out.bytes = r[2] /\ Len(e.out.bytes) = e.len

(* hash_to_field: consecutive L-byte blocks, each OS2IP mod p *)
FieldL(f) == CASE f = "Fq" -> 64 [] f = "Fr" -> 48 [] f = "Fq2" -> 128
ElemOfBlock(f, b) ==
  CASE f = "Fq"  -> Rem(FromBytesBE(b), Q)
    [] f = "Fr"  -> Rem(FromBytesBE(b), R)
    [] f = "Fq2" -> <<Rem(FromBytesBE(SubSeq(b, 1, 64)), Q), Rem(FromBytesBE(SubSeq(b, 65, 128)), Q)>>
ElemsOf(f, bytes, count) ==
  [i \in 1..count |-> ElemOfBlock(f, SubSeq(bytes, (i - 1) * FieldL(f) + 1, i * FieldL(f)))]

JudgeH2f(e) ==
  \* element counts whose byte length does not even fit a machine word are far beyond 255 blocks
  IF "countbig" \in DOMAIN e
  THEN (Len(e.dst) <= 255 /\ IsXmd(e.x) /\ Lt(FromInt(255 * OutBytes(e.x)), Mul(e.countbig, FromInt(FieldL(e.f))))) => e.out.aborted
  ELSE
  LET len == e.count * FieldL(e.f) IN
  InDomain(e, len) =>
    IF MustAbort(e.x, len) THEN e.out.aborted
    ELSE LET r == TLCEval(ExpandOut(e.x, e.out.H, e.msg, e.dst, len)) IN
         /\ ~e.out.aborted /\ HFunctional(e.out.H) /\ GraphIsHash(e.x, e.out.H) /\ r[1]
         /\ Len(e.out.elems) = e.count
         /\ \A i \in 1..e.count : e.out.elems[i] = ElemsOf(e.f, r[2], e.count)[i]

JudgeOkm(e) == ~e.out.aborted /\ Len(e.bytes) = FieldL(e.f) /\ e.out.elem = ElemOfBlock(e.f, e.bytes)

(* hash_to_curve (RO: two elements, sum of the two mapped points) / encode_to_curve (NU) *)
JudgeH2c(e) ==
  LET g == e.g
      f == IF g = "G1" THEN "Fq" ELSE "Fq2"
      count == IF e.mode = "ro" THEN 2 ELSE 1
      r == TLCEval(ExpandOut(e.x, e.out.H, e.msg, e.dst, count * FieldL(f)))
  IN
  InDomain(e, count * FieldL(f)) =>
    /\ ~e.out.aborted /\ HFunctional(e.out.H) /\ GraphIsHash(e.x, e.out.H) /\ r[1]
    /\ LET u == ElemsOf(f, r[2], count)
           S == TLCEval(IF e.mode = "ro" THEN Map2ToCurve(g, u[1], u[2]) ELSE MapToCurve(g, u[1]))
       IN GRep(g, e.out.r, S) /\ GMul(g, S, R) = <<>>

(* closed forms for the interpreted instances (anchored in MC_Math) *)
H2fClosed(x, f, msg, dst, count) == ElemsOf(f, XmdClosed(x, msg, dst, count * FieldL(f)), count)
H2cClosed(x, g, mode, msg, dst) ==
  LET f == IF g = "G1" THEN "Fq" ELSE "Fq2"
      u == H2fClosed(x, f, msg, dst, IF mode = "ro" THEN 2 ELSE 1)
  IN IF mode = "ro" THEN Map2ToCurve(g, u[1], u[2]) ELSE MapToCurve(g, u[1])
=============================================================================
