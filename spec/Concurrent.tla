------------------------------- MODULE Concurrent -------------------------------
(***************************************************************************)
(* C20 as a model: threads invoke operation instances of a PURE library.   *)
(* The specification of the library is a function F from instances to      *)
(* values and nothing else - no variable is shared between calls - so any  *)
(* interleaving of invocations and returns yields, for every instance, the *)
(* value of the sequential reference run.  The model enumerates all        *)
(* interleavings of a few threads (a sanity check of the trace             *)
(* specification inlined in Trace.tla: memo / tseq), and contrasts it with *)
(* a deliberately impure variant (a one-entry cache keyed incompletely),   *)
(* for which TLC finds the violating history - the kind of defect the      *)
(* recorded multi-thread traces are validated against.                     *)
(***************************************************************************)
EXTENDS Integers, Sequences, FiniteSets
CONSTANTS Threads, Instances, Impure

VARIABLES pc, hist, cache
vars == <<pc, hist, cache>>
(* an instance is <<key, extra>>: F depends on both; the impure cache is keyed by `key` only *)
F(i) == 10 * i[1] + i[2]

Init == /\ pc = [t \in Threads |-> <<>>]
        /\ hist = <<>>
        /\ cache = <<>>          \* <<key, value>> of the last computation, or <<>>

Invoke(t, i) == /\ pc[t] = <<>>
                /\ pc' = [pc EXCEPT ![t] = i]
                /\ UNCHANGED <<hist, cache>>
Compute(i) == IF Impure /\ cache # <<>> /\ cache[1] = i[1] THEN cache[2] ELSE F(i)
Return(t) == /\ pc[t] # <<>>
             /\ LET i == pc[t]  v == Compute(i) IN
                /\ hist' = Append(hist, [t |-> t, inst |-> i, val |-> v])
                /\ cache' = <<i[1], v>>
             /\ pc' = [pc EXCEPT ![t] = <<>>]
Next == /\ Len(hist) < 4
        /\ \/ \E t \in Threads, i \in Instances : Invoke(t, i)
           \/ \E t \in Threads : Return(t)
Spec == Init /\ [][Next]_vars

(* every return carries the value of the pure function: deterministic, history- and schedule-independent *)
Deterministic == \A k \in 1..Len(hist) : hist[k].val = F(hist[k].inst)
=============================================================================
