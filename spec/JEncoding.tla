------------------------------ MODULE JEncoding ------------------------------
(***************************************************************************)
(* The ZCash BLS12-381 point encoding as a function on byte strings,       *)
(* written from the rules in src/bls12_381/README.md (Serialization), and  *)
(* the staged decoder of C04 as an ordered sequence of validations:        *)
(*   1 form flag   2 infinity / sort flags   3 coordinate range            *)
(*   4 curve equation (compressed: a root exists)   5 subgroup             *)
(* The first failing stage determines the error category.                  *)
(***************************************************************************)
EXTENDS JCurve, DecodeStages

FlagC(b) == b[1] \div 128
FlagI(b) == (b[1] \div 64) % 2
FlagS(b) == (b[1] \div 32) % 2
Chunk(b, i) == SubSeq(b, 48 * (i - 1) + 1, 48 * i)       \* i-th 48-byte field
(* integer value of field i, the three flag bits of the very first byte masked *)
FieldVal(b, i) == IF i = 1 THEN FromBytesBE(<<b[1] % 32>> \o SubSeq(b, 2, 48)) ELSE FromBytesBE(Chunk(b, i))
AllZeroFrom(b, i) == \A j \in i..Len(b) : b[j] = 0

EncLen(g, form) == IF g = "G1" THEN (IF form = "c" THEN 48 ELSE 96) ELSE (IF form = "c" THEN 96 ELSE 192)
NFields(g, form) == EncLen(g, form) \div 48

(* "lexicographically largest": y > -y in the order of the base field *)
IsLarger(g, y) == IF g = "G1" THEN Cmp(y, FqNeg(y)) = 1 ELSE F2Cmp(y, F2Neg(y)) = 1
GRhs(g, x) == IF g = "G1" THEN E1!Rhs(x) ELSE E2!Rhs(x)
(* <<exists, some root>> *)
GSqrt(g, a) == IF g = "G1" THEN (LET s == FqSqrtCand(a) IN <<FqSqr(s) = a, s>>) ELSE F2Sqrt(a)
GFNeg(g, y) == IF g = "G1" THEN FqNeg(y) ELSE F2Neg(y)

Ok(P)  == <<"ok", P>>
Err(c) == <<"err", c>>

(* coordinates as field elements: G2 stores c1 before c0 *)
XCoord(g, b) == IF g = "G1" THEN FieldVal(b, 1) ELSE <<FieldVal(b, 2), FieldVal(b, 1)>>
YCoord(g, b) == IF g = "G1" THEN FieldVal(b, 2) ELSE <<FieldVal(b, 4), FieldVal(b, 3)>>

(* the abstract result: Ok(point) or Err(category) *)
Decode(g, form, b, checked) ==
  IF (form = "c") # (FlagC(b) = 1) THEN Err("UnexpectedCompressionMode")
  ELSE IF FlagI(b) = 1
       THEN IF b[1] % 64 = 0 /\ AllZeroFrom(b, 2) THEN Ok(<<>>) ELSE Err("UnexpectedInformation")
  ELSE IF form = "u" /\ FlagS(b) = 1 THEN Err("UnexpectedInformation")
  ELSE IF \E i \in 1..NFields(g, form) : ~Lt(FieldVal(b, i), Q) THEN Err("Coordinate")
  ELSE IF form = "u"
       THEN LET P == <<XCoord(g, b), YCoord(g, b)>> IN
            IF ~checked THEN Ok(P)
            ELSE IF ~GOnCurve(g, P) THEN Err("NotOnCurve")
            ELSE IF GMul(g, P, R) # <<>> THEN Err("NotInSubgroup")
            ELSE Ok(P)
       ELSE LET x == XCoord(g, b)
                s == GSqrt(g, GRhs(g, x))
            IN IF ~s[1] THEN Err("NotOnCurve")
               ELSE LET y == IF IsLarger(g, s[2]) = (FlagS(b) = 1) THEN s[2] ELSE GFNeg(g, s[2])
                        P == <<x, y>>
                    IN IF checked /\ GMul(g, P, R) # <<>> THEN Err("NotInSubgroup") ELSE Ok(P)

(***************************************************************************)
(* The same decoder through the staged machine: ClassOf abstracts a byte   *)
(* string to the answers of the five validations (DecodeStages), later     *)
(* answers being computed only when the earlier stages pass (the subgroup  *)
(* stage is expensive), and DecodeStages!FirstFailR gives the verdict.     *)
(* JudgeDecode requires Decode and the machine to agree on every input.    *)
(***************************************************************************)
ClassOf(g, form, b, checked) ==
  LET fOK  == (form = "c") = (FlagC(b) = 1)
      inf  == fOK /\ FlagI(b) = 1
      flOK == IF FlagI(b) = 1 THEN b[1] % 64 = 0 /\ AllZeroFrom(b, 2) ELSE ~(form = "u" /\ FlagS(b) = 1)
      early == fOK /\ flOK /\ ~inf
      rgOK == early /\ \A i \in 1..NFields(g, form) : Lt(FieldVal(b, i), Q)
      x    == XCoord(g, b)
      root == IF rgOK /\ form = "c" THEN GSqrt(g, GRhs(g, x)) ELSE <<FALSE, x>>
      P    == IF form = "u" THEN <<x, YCoord(g, b)>>
              ELSE <<x, IF IsLarger(g, root[2]) = (FlagS(b) = 1) THEN root[2] ELSE GFNeg(g, root[2])>>
      cvOK == rgOK /\ (IF form = "u" THEN GOnCurve(g, P) ELSE root[1])
      sbOK == cvOK /\ checked /\ GMul(g, P, R) = <<>>
  IN [form |-> form, checked |-> checked, inf |-> inf, form_ |-> fOK, flags |-> flOK,
      range |-> rgOK, curve |-> cvOK, sub |-> sbOK]
MachineVerdict(g, form, b, checked) == FirstFailR(ClassOf(g, form, b, checked), 1)
CategoryOf(d) == IF d[1] = "ok" THEN "ok" ELSE d[2]

(* the library's result <<"ok", <<x,y,inf>>>> / <<"err", name>> against the abstract one *)
DecMatches(g, lib, spec) ==
  IF spec[1] = "err" THEN lib = spec
  ELSE lib[1] = "ok" /\ AffRep(lib[2], spec[2])

Zeros(n) == [i \in 1..n |-> 0]
FBytes(a) == ToBytesBE(a, 48)
CoordBytes(g, c) == IF g = "G1" THEN FBytes(c) ELSE FBytes(c[2]) \o FBytes(c[1])
SetFlags(b, f) == <<b[1] + f>> \o SubSeq(b, 2, Len(b))
EncodeU(g, P) == IF Len(P) = 0 THEN <<64>> \o Zeros(EncLen(g, "u") - 1)
                 ELSE CoordBytes(g, P[1]) \o CoordBytes(g, P[2])
EncodeC(g, P) == IF Len(P) = 0 THEN <<192>> \o Zeros(EncLen(g, "c") - 1)
                 ELSE SetFlags(CoordBytes(g, P[1]), 128 + (IF IsLarger(g, P[2]) THEN 32 ELSE 0))

(* the stream API (SerDes::deserialize of the affine and of the projective type, read from whole *)
(* and from chunked readers) is the CHECKED decoder on exactly EncLen bytes: errors carry no     *)
(* category, successes consume the whole encoding; a shorter string is never accepted.           *)
SerdesMatches(g, form, s, dc) ==
  IF dc[1] = "err" THEN s.res[1] = "err"
  ELSE /\ s.res[1] = "ok"
       /\ s.consumed = EncLen(g, form)
       /\ (IF s.ty = "aff" THEN AffRep(s.res[2], dc[2]) ELSE GRep(g, s.res[2], dc[2]))
SerdesAll(g, form, out, dc) ==
  "serdes" \in DOMAIN out => \A i \in 1..Len(out.serdes) : SerdesMatches(g, form, out.serdes[i], dc)

(* two decodes that wait for one another (the reader of one is fed by the thread of the other): both *)
(* finish, each with the checked decoder's result                                                    *)
JudgePipe(e) ==
  /\ ~e.out.timeout
  /\ SerdesMatches(e.g, e.form, e.out.a, TLCEval(Decode(e.g, e.form, e.a, TRUE)))
  /\ SerdesMatches(e.g, e.form, e.out.b, TLCEval(Decode(e.g, e.form, e.b, TRUE)))

JudgeDecode(e) ==
  LET g == e.g
      b == e.bytes
      dc == TLCEval(Decode(g, e.form, b, TRUE))
      du == TLCEval(Decode(g, e.form, b, FALSE))
  IN
  IF Len(b) < EncLen(g, e.form) THEN SerdesAll(g, e.form, e.out, Err("short"))
  ELSE
  /\ Len(b) = EncLen(g, e.form)
  /\ SerdesAll(g, e.form, e.out, dc)
  /\ DecMatches(g, e.out.checked, dc)
  /\ DecMatches(g, e.out.unchecked, du)
  \* the function Decode and the staged machine agree on this input (cheap stages only when
  \* the subgroup stage was not reached; the unchecked run never reaches it)
  /\ CategoryOf(du) = MachineVerdict(g, e.form, b, FALSE)
  /\ (dc[1] = "err" /\ dc[2] # "NotInSubgroup" => CategoryOf(dc) = MachineVerdict(g, e.form, b, TRUE))
  /\ (dc[1] = "ok" =>
        \* non-malleability: re-encoding the decoded point reproduces the input
        /\ e.out.reenc.c = EncodeC(g, dc[2])
        /\ e.out.reenc.u = EncodeU(g, dc[2])
        /\ (IF e.form = "c" THEN EncodeC(g, dc[2]) ELSE EncodeU(g, dc[2])) = b)

JudgeEncode(e) ==
  LET g == e.g
      P == OfAffRec(e.out.aff)
      c == EncodeC(g, P)
      u == EncodeU(g, P)
  IN
  /\ GOnCurve(g, P)
  /\ ("pj" \in DOMAIN e => GRep(g, e.pj, P))
  /\ ("p" \in DOMAIN e => e.out.aff = e.p)
  /\ e.out.c = c /\ e.out.u = u
  /\ e.out.c_from_affine = c /\ e.out.u_from_affine = u
  \* the stream writers of both point types: the same bytes whatever the sink takes per call, an
  \* error (not a silent prefix) when the sink cannot hold them
  /\ ("ser" \in DOMAIN e.out => \A k \in 1..Len(e.out.ser) :
        LET s == e.out.ser[k] IN
        IF s.kind = "too-small" THEN s.res = "err"
        ELSE s.res = "ok" /\ s.bytes = (IF s.c THEN c ELSE u))
  /\ Len(e.out.c) = EncLen(g, "c") /\ Len(e.out.u) = EncLen(g, "u")
  /\ e.out.sizes = <<EncLen(g, "c"), EncLen(g, "u")>>
  /\ LET d == TLCEval(Decode(g, "c", c, TRUE)) IN
       /\ DecMatches(g, e.out.dc, d)
       /\ DecMatches(g, e.out.du, IF d[1] = "ok" THEN d ELSE Decode(g, "u", u, TRUE))
       /\ (GInSub(g, P) => d = Ok(P))

(* C07: the membership predicate is exact *)
JudgeInsub(e) ==
  LET P == OfAffRec(e.p) IN
  e.out = (Len(P) = 0 \/ (GOnCurve(e.g, P) /\ GMul(e.g, P, R) = <<>>))

(* C07: every point handed out by a safe producer is on the curve and killed by r *)
InSubJ(g, J) == LET P == GOfJac(g, J) IN GOnCurve(g, P) /\ GMul(g, P, R) = <<>>
=============================================================================
