------------------------------ MODULE Gen_C01 ------------------------------
(***************************************************************************)
(* Script generation for C01 (spec -> impl): the exhaustive operand table  *)
(* over labelled points [a]g + [b]T (T a small-order point of the curve    *)
(* outside the subgroup), every representation class of both operands,     *)
(* every binary and unary operation; same-y pairs built with the j = 0     *)
(* automorphism; all batch arrangements up to length 4.  The scripts carry *)
(* concrete coordinates computed here with the textbook group law.         *)
(***************************************************************************)
EXTENDS BLS, Json, IOUtils, TLC, SequencesExt

Thorough == IOEnv.VERIF_TIER = "thorough"
OutDir == IOEnv.OUT

(* deterministic "random" scalars for representatives *)
Lam1(i) == FqPow(<<5>>, FromInt(i + 17))
Lam2(i) == <<Lam1(2*i), Lam1(2*i + 1)>>

(* a point of order 13 on E2.  13^2 divides h2 and the 13-part of E2(Fq2) is      *)
(* Z13 x Z13 (so [N2/13] kills everything): take [N2/169]P and, should it have   *)
(* order 169, multiply once more by 13.                                          *)
RECURSIVE FindT13(_)
FindT13(i) == LET P == TLCEval(TryX2(<<FromInt(i), One>>, 40))
                  T == TLCEval(E2!PMul(P, Div(N2, <<169>>)))
                  U == TLCEval(E2!PMul(T, <<13>>))
              IN IF E2!IsO(T) THEN FindT13(i + 1) ELSE IF E2!IsO(U) THEN T ELSE U
T13 == FindT13(1)
ASSUME E2!OnCurve(T13) /\ ~E2!IsO(T13) /\ E2!IsO(E2!PMul(T13, <<13>>))
ASSUME E1!OnCurve(T3) /\ E1!IsO(E1!PMul(T3, Three))

(* labelled points *)
A1 == IF Thorough THEN 4 ELSE 2
A2 == IF Thorough THEN 2 ELSE 1
Pts1 == LET as == [i \in 1..(2*A1+1) |-> i - A1 - 1] IN
        FlattenSeq([i \in 1..Len(as) |-> [b \in 1..3 |->
            E1!PAdd(E1!PMulInt(Gen1, as[i]), E1!PMulInt(T3, b - 1))]])
Pts2 == LET as == [i \in 1..(2*A2+1) |-> i - A2 - 1]  bs == <<0, 1, 12>> IN
        FlattenSeq([i \in 1..Len(as) |-> [b \in 1..3 |->
            E2!PAdd(E2!PMulInt(Gen2, as[i]), E2!PMulInt(T13, bs[b]))]])

(* representatives: class 1 = canonical (Z = 1, or (0,1,0) for O),            *)
(* class 2 = scaled by lambda / junk coordinates with Z = 0 for O             *)
Jac1(P, cls, i) ==
  IF E1!IsO(P) THEN (IF cls = 1 THEN <<Zero, One, Zero>> ELSE <<Lam1(i), Lam1(i+1), Zero>>)
  ELSE IF cls = 1 THEN <<P[1], P[2], One>>
  ELSE LET l == Lam1(i) l2 == FqSqr(l) IN <<FqMul(P[1], l2), FqMul(P[2], FqMul(l2, l)), l>>
Jac2(P, cls, i) ==
  IF E2!IsO(P) THEN (IF cls = 1 THEN <<F2Zero, F2One, F2Zero>> ELSE <<Lam2(i), Lam2(i+1), F2Zero>>)
  ELSE IF cls = 1 THEN <<P[1], P[2], F2One>>
  ELSE LET l == Lam2(i) l2 == F2Sqr(l) IN <<F2Mul(P[1], l2), F2Mul(P[2], F2Mul(l2, l)), l>>
Jac(g, P, cls, i) == IF g = "G1" THEN Jac1(P, cls, i) ELSE Jac2(P, cls, i)
AffRec(g, P) == IF Len(P) = 0 THEN (IF g = "G1" THEN <<Zero, One, TRUE>> ELSE <<F2Zero, F2One, TRUE>>)
                ELSE <<P[1], P[2], FALSE>>

Cm(g, f)        == [op |-> "cm", g |-> g, fn |-> f]
CmD(g, f, d)    == [op |-> "cm", g |-> g, fn |-> f, d |-> d]
CmDS(g, f, d, s) == [op |-> "cm", g |-> g, fn |-> f, d |-> d, s |-> s]
Load(g, d, J, c) == [op |-> "cm", g |-> g, fn |-> "load", d |-> d, v |-> J, cls |-> c]
LoadAff(g, d, A) == [op |-> "cm", g |-> g, fn |-> "load_aff", d |-> d, v |-> A]

PairOps(g, P, S, cp, cs, i) ==
  << Load(g, 0, Jac(g, P, cp, i), "table"), Load(g, 1, Jac(g, S, cs, i + 3), "table"),
     (IF Len(S) = 0 THEN CmD(g, "zero_aff", 1) ELSE LoadAff(g, 1, AffRec(g, S))),
     CmDS(g, "copy", 2, 0), CmDS(g, "add", 2, 1),
     CmDS(g, "copy", 2, 0), CmDS(g, "sub", 2, 1),
     CmDS(g, "copy", 2, 0), CmDS(g, "add_mixed", 2, 1),
     CmDS(g, "copy", 2, 0), CmDS(g, "sub_mixed", 2, 1),
     CmDS(g, "eq", 0, 1), CmDS(g, "eq", 1, 0),
     CmDS(g, "into_affine", 0, 0), CmDS(g, "eq_aff", 0, 1),
     \* accumulate in place: (P + S) + S, then - P
     CmDS(g, "add", 0, 1), CmDS(g, "add", 0, 1), CmDS(g, "sub", 0, 2) >>

UnaryOps(g, P, cp, i) ==
  << Load(g, 0, Jac(g, P, cp, i), "table"),
     CmD(g, "is_zero", 0), CmD(g, "is_normalized", 0),
     CmDS(g, "into_affine", 0, 0), CmD(g, "is_zero_aff", 0),
     CmDS(g, "into_projective", 1, 0), CmDS(g, "eq", 0, 1),
     CmD(g, "negate_aff", 0), CmDS(g, "into_projective", 1, 0),
     CmDS(g, "copy", 2, 0), CmD(g, "negate", 2), CmDS(g, "eq", 1, 2),
     CmDS(g, "add", 2, 0),                     \* (-P) + P
     CmDS(g, "copy", 3, 0), CmD(g, "double", 3),
     CmDS(g, "copy", 4, 0), CmDS(g, "add", 4, 0), CmDS(g, "eq", 3, 4),   \* P + P through add
     CmD(g, "double", 2), CmD(g, "negate", 2), CmDS(g, "into_affine", 2, 2) >>  \* on the junk zero

Table(g, pts) ==
  FlattenSeq([i \in 1..Len(pts) |->
    FlattenSeq([j \in 1..Len(pts) |->
      FlattenSeq([c \in 1..4 |->
        PairOps(g, pts[i], pts[j], 1 + ((c-1) \div 2), 1 + ((c-1) % 2), 7*i + 3*j + c)])])])
Unary(g, pts) ==
  FlattenSeq([i \in 1..Len(pts) |-> FlattenSeq([c \in 1..2 |-> UnaryOps(g, pts[i], c, 11*i + c)])])

(* same-y triples P, phi(P), phi^2(P): equal y, different x *)
SameY(g) ==
  LET Pa == IF g = "G1" THEN E1!PMulInt(Gen1, 3) ELSE E2!PMulInt(Gen2, 3)
      Pb == IF g = "G1" THEN Phi1(Pa) ELSE Phi2(Pa)
      Pc == IF g = "G1" THEN Phi1(Pb) ELSE Phi2(Pb)
      ps == <<Pa, Pb, Pc>>
  IN FlattenSeq([i \in 1..3 |-> FlattenSeq([j \in 1..3 |->
        FlattenSeq([c \in 1..4 |-> PairOps(g, ps[i], ps[j], 1 + ((c-1) \div 2), 1 + ((c-1) % 2), 5*i + j + c)])])])

(* batches: all arrangements of {identity, normalized, scaled, junk zero} of length 1..4 *)
BatchEntry(g, k, pos) ==
  LET P == IF g = "G1" THEN E1!PMulInt(Gen1, pos + 1) ELSE E2!PMulInt(Gen2, pos + 1) IN
  CASE k = 0 -> Jac(g, <<>>, 1, pos)
    [] k = 1 -> Jac(g, P, 1, pos)
    [] k = 2 -> Jac(g, P, 2, pos + 20)
    [] k = 3 -> Jac(g, <<>>, 2, pos + 40)
RECURSIVE P4(_)
P4(n) == IF n = 0 THEN 1 ELSE 4 * P4(n-1)
BatchOps(g, n, code) ==
  [pos \in 1..n |-> Load(g, pos - 1, BatchEntry(g, (code \div P4(pos-1)) % 4, pos), "batch")]
  \o << [op |-> "cm", g |-> g, fn |-> "batch_normalization", regs |-> [pos \in 1..n |-> pos - 1], cls |-> "batch"] >>
  \o [pos \in 1..n |-> CmD(g, "is_normalized", pos - 1)]
Batches(g) ==
  FlattenSeq([n \in 1..4 |-> FlattenSeq([c \in 1..P4(n) |-> BatchOps(g, n, c - 1)])])
  \o << [op |-> "cm", g |-> g, fn |-> "batch_normalization", regs |-> <<>>, cls |-> "batch"] >>

(* split a long script into files of at most n operations, each starting with reset *)
RECURSIVE WriteChunks(_,_,_,_)
WriteChunks(name, s, n, k) ==
  IF Len(s) = 0 THEN TRUE
  ELSE LET m == IF Len(s) < n THEN Len(s) ELSE n IN
       /\ ndJsonSerialize(OutDir \o "/" \o name \o "-" \o ToString(k) \o ".script.ndjson", SubSeq(s, 1, m))
       /\ WriteChunks(name, SubSeq(s, m + 1, Len(s)), n, k + 1)

(* PairOps blocks are 18 operations and self-contained (they reload registers) *)
ASSUME WriteChunks("c01-g1-table", Table("G1", Pts1), 18 * 60, 100)
ASSUME WriteChunks("c01-g2-table", Table("G2", Pts2), 18 * 20, 100)
ASSUME WriteChunks("c01-g1-unary", Unary("G1", Pts1), 2000, 100)
ASSUME WriteChunks("c01-g2-unary", Unary("G2", Pts2), 2000, 100)
ASSUME WriteChunks("c01-g1-samey", SameY("G1"), 2000, 100)
ASSUME WriteChunks("c01-g2-samey", SameY("G2"), 2000, 100)
ASSUME WriteChunks("c01-g1-batch", Batches("G1"), 3000, 100)
ASSUME WriteChunks("c01-g2-batch", Batches("G2"), 3000, 100)
=============================================================================
