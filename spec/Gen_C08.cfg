
