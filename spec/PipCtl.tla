-------------------------------- MODULE PipCtl --------------------------------
(***************************************************************************)
(* The control skeleton of the bucket method, shared by the small-scale    *)
(* machine (Pippenger, model checked for all scalars) and by the judge of  *)
(* full-scale white-box traces (JScalar!JudgeMsm, WORD = 64, NW = 4):      *)
(* window positions, number of doublings between windows, termination.     *)
(* c = window size, b = bit_sequence_index (top bit of the current window).*)
(***************************************************************************)
EXTENDS Integers
PcWinLo(c, b)   == IF b - c + 1 > 0 THEN b - c + 1 ELSE 0          \* lowest bit of the window
PcWidth(c, b)   == b - PcWinLo(c, b) + 1                            \* its width
PcLast(c, b)    == b < c                                            \* the loop stops after this window
PcNextBsi(c, b) == b - c
PcNextNd(c, b)  == IF b - c < c - 1 THEN b - c + 1 ELSE c           \* doublings before the next window
=============================================================================
