------------------------------ MODULE BigNat ------------------------------
(***************************************************************************)
(* Natural numbers of unbounded size for TLC (whose integers are 32-bit).  *)
(*                                                                         *)
(* A natural is a little-endian tuple of 16-bit limbs without a trailing   *)
(* zero limb; <<>> is 0.  Every operator below is DEFINED here in plain    *)
(* TLA+ (these definitions are authoritative and are what `check selfmath` *)
(* compares the override with); BigNat.class overrides them with           *)
(* java.math.BigInteger so that 381-bit arithmetic is usable (the pure     *)
(* definitions need seconds per modular product).                          *)
(*                                                                         *)
(* Names avoid TLC's legacy operator names (Mod, Plus, Times, ...).        *)
(***************************************************************************)
EXTENDS Integers, Sequences

LOCAL B == 65536

IsNat(a) == /\ a \in Seq(0..(B-1))
            /\ (Len(a) = 0 \/ a[Len(a)] # 0)

Zero == <<>>
One  == <<1>>
Two  == <<2>>

(* strip trailing zero limbs *)
RECURSIVE Norm(_)
Norm(a) == IF Len(a) = 0 THEN a
           ELSE IF a[Len(a)] = 0 THEN Norm(SubSeq(a, 1, Len(a)-1)) ELSE a

(* small TLC integers (0 .. 2^31-1) <-> BigNat *)
FromInt(n) == IF n = 0 THEN <<>>
              ELSE IF n < B THEN <<n>>
              ELSE <<n % B, n \div B>>          \* n < 2^31  =>  n \div B < 2^15
ToInt(a) == IF Len(a) = 0 THEN 0
            ELSE IF Len(a) = 1 THEN a[1]
            ELSE a[1] + B * a[2]                \* caller guarantees a < 2^31

LOCAL Limb(a, i) == IF i <= Len(a) THEN a[i] ELSE 0

RECURSIVE AddC(_,_,_,_)
AddC(a, b, i, c) ==
  IF i > Len(a) /\ i > Len(b)
  THEN IF c = 0 THEN <<>> ELSE <<c>>
  ELSE LET s == Limb(a,i) + Limb(b,i) + c
       IN <<s % B>> \o AddC(a, b, i+1, s \div B)

Add(a, b) == AddC(a, b, 1, 0)

RECURSIVE CmpFrom(_,_,_)
CmpFrom(a, b, i) ==
  IF i = 0 THEN 0
  ELSE IF a[i] < b[i] THEN -1
  ELSE IF a[i] > b[i] THEN 1
  ELSE CmpFrom(a, b, i-1)

(* -1, 0, 1 *)
Cmp(a, b) == IF Len(a) < Len(b) THEN -1
             ELSE IF Len(a) > Len(b) THEN 1
             ELSE CmpFrom(a, b, Len(a))

Lt(a, b) == Cmp(a, b) = -1
Le(a, b) == Cmp(a, b) # 1

RECURSIVE SubC(_,_,_,_)
SubC(a, b, i, br) ==
  IF i > Len(a) THEN <<>>
  ELSE LET d == Limb(a,i) - Limb(b,i) - br
       IN IF d < 0 THEN <<d + B>> \o SubC(a, b, i+1, 1)
                   ELSE <<d>> \o SubC(a, b, i+1, 0)

(* a - b for a >= b (monus: 0 when a < b) *)
Sub(a, b) == IF Cmp(a, b) = -1 THEN <<>> ELSE Norm(SubC(a, b, 1, 0))

(* a * d for 0 <= d <= 256: limb*d + carry < 2^24 + 2^9 *)
RECURSIVE MulSmallC(_,_,_,_)
MulSmallC(a, d, i, c) ==
  IF i > Len(a) THEN (IF c = 0 THEN <<>> ELSE <<c>>)
  ELSE LET s == a[i] * d + c
       IN <<s % B>> \o MulSmallC(a, d, i+1, s \div B)
LOCAL MulSmall(a, d) == IF d = 0 THEN <<>> ELSE MulSmallC(a, d, 1, 0)

(* bytes of b, most significant first *)
RECURSIVE BytesMSB(_,_)
BytesMSB(b, i) == IF i = 0 THEN <<>>
                  ELSE <<b[i] \div 256, b[i] % 256>> \o BytesMSB(b, i-1)

RECURSIVE MulH(_,_,_,_)
MulH(a, bytes, j, acc) ==
  IF j > Len(bytes) THEN acc
  ELSE MulH(a, bytes, j+1, Add(MulSmall(acc, 256), MulSmall(a, bytes[j])))

Mul(a, b) == IF Len(a) = 0 \/ Len(b) = 0 THEN <<>>
             ELSE MulH(a, BytesMSB(b, Len(b)), 1, <<>>)

(* number of significant bits; 0 for 0 *)
RECURSIVE BitsOfLimb(_)
BitsOfLimb(x) == IF x = 0 THEN 0 ELSE 1 + BitsOfLimb(x \div 2)
NumBits(a) == IF Len(a) = 0 THEN 0 ELSE 16 * (Len(a) - 1) + BitsOfLimb(a[Len(a)])

RECURSIVE BnP2(_)
BnP2(k) == IF k = 0 THEN 1 ELSE 2 * BnP2(k-1)       \* k <= 15

(* bit i (0 = least significant) *)
Bit(a, i) == LET l == (i \div 16) + 1
             IN IF l > Len(a) THEN 0 ELSE (a[l] \div BnP2(i % 16)) % 2

(* binary long division: returns <<quotient bits processed into q, remainder>> *)
RECURSIVE DivRemH(_,_,_,_,_)
DivRemH(a, m, i, q, r) ==
  IF i < 0 THEN <<q, r>>
  ELSE LET r2 == Add(Add(r, r), IF Bit(a, i) = 1 THEN <<1>> ELSE <<>>)
           ge == Cmp(r2, m) # -1
           r3 == IF ge THEN Sub(r2, m) ELSE r2
           q2 == Add(Add(q, q), IF ge THEN <<1>> ELSE <<>>)
       IN DivRemH(a, m, i-1, q2, r3)

(* m # 0 *)
Div(a, m) == DivRemH(a, m, NumBits(a) - 1, <<>>, <<>>)[1]
Rem(a, m) == DivRemH(a, m, NumBits(a) - 1, <<>>, <<>>)[2]

MulMod(a, b, m) == Rem(Mul(a, b), m)
AddMod(a, b, m) == Rem(Add(a, b), m)
(* (a - b) mod m for a, b < m *)
SubMod(a, b, m) == IF Cmp(a, b) # -1 THEN Sub(a, b) ELSE Sub(Add(a, m), b)

RECURSIVE PowModH(_,_,_,_,_)
PowModH(a, e, m, i, acc) ==
  IF i < 0 THEN acc
  ELSE LET s == MulMod(acc, acc, m)
       IN PowModH(a, e, m, i-1, IF Bit(e, i) = 1 THEN MulMod(s, a, m) ELSE s)

(* a^e mod m, m >= 2; a^0 = 1 *)
PowMod(a, e, m) == PowModH(Rem(a, m), e, m, NumBits(e) - 1, Rem(<<1>>, m))

(* inverse modulo a PRIME m (Fermat); 0 for a = 0 mod m *)
InvMod(a, m) == PowMod(a, Sub(m, <<2>>), m)

(* a * 2^k, floor(a / 2^k) *)
RECURSIVE Pow2(_)
Pow2(k) == IF k < 16 THEN <<BnP2(k)>> ELSE <<0>> \o Pow2(k - 16)
ShiftL(a, k) == Mul(a, Pow2(k))
ShiftR(a, k) == Div(a, Pow2(k))
(* a mod 2^k *)
LowBits(a, k) == Rem(a, Pow2(k))

(* big-endian byte strings (tuples of 0..255) *)
RECURSIVE FromBytesH(_,_,_)
FromBytesH(bs, j, acc) ==
  IF j > Len(bs) THEN acc
  ELSE FromBytesH(bs, j+1, Add(MulSmall(acc, 256), IF bs[j] = 0 THEN <<>> ELSE <<bs[j]>>))
FromBytesBE(bs) == FromBytesH(bs, 1, <<>>)

LOCAL ByteAt(a, k) == \* byte k (0 = least significant)
  LET l == (k \div 2) + 1
  IN IF l > Len(a) THEN 0 ELSE IF k % 2 = 0 THEN a[l] % 256 ELSE a[l] \div 256
(* exactly len bytes, most significant first; value must be < 256^len *)
ToBytesBE(a, len) == [j \in 1..len |-> ByteAt(a, len - j)]


(* literals: Hex(<<\h1a01, \h11ea, ...>>) = big-endian groups of four hex     *)
(* digits; Dec(<<3,6,8,...>>) = decimal digits, most significant first.       *)
RECURSIVE HexH(_,_,_)
HexH(s, j, acc) == IF j > Len(s) THEN acc
                   ELSE HexH(s, j+1, Add(<<0>> \o acc, IF s[j] = 0 THEN <<>> ELSE <<s[j]>>))
Hex(s) == Norm(HexH(s, 1, <<>>))
RECURSIVE DecH(_,_,_)
DecH(s, j, acc) == IF j > Len(s) THEN acc
                   ELSE DecH(s, j+1, Add(MulSmall(acc, 10), IF s[j] = 0 THEN <<>> ELSE <<s[j]>>))
Dec(s) == DecH(s, 1, <<>>)

(* little-endian 64-bit words given as tuples of four 16-bit limbs each is    *)
(* just concatenation, so the trace format needs no conversion.               *)

(* hexadecimal literal "0x..." / decimal literal are not available in TLA+;  *)
(* constants are written as limb tuples generated by tools/lit.py and checked *)
(* by ASSUMEs in Params.                                                      *)
=============================================================================
