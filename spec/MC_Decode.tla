---- MODULE MC_Decode ----
EXTENDS DecodeMachine, TLC
====
