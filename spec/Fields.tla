------------------------------- MODULE Fields -------------------------------
(***************************************************************************)
(* The fields of BLS12-381 as quotient rings, textbook style.              *)
(*                                                                         *)
(*   Fp   integers modulo a prime p (p is an argument: used for q and r)   *)
(*   Fq2  = Fq[u]/(u^2+1)            elements <<c0, c1>>                   *)
(*   Fq6  = Fq2[v]/(v^3-(1+u))       elements <<a0, a1, a2>>               *)
(*   Fq12 = Fq6[w]/(w^2-v)           elements <<b0, b1>>                   *)
(*                                                                         *)
(* Products are schoolbook; nothing here is shaped like the code under     *)
(* test (no Montgomery form, no Karatsuba, no precomputed Frobenius        *)
(* tables).  Results are explicit tuples, so TLC never re-evaluates lazily. *)
(***************************************************************************)
EXTENDS Params, TLC

(* Option-valued results as logged by the harness: <<"none">> or <<"some", v>> *)
IsNone(o) == Len(o) = 1 /\ o[1] = "none"
IsSome(o) == Len(o) = 2 /\ o[1] = "some"

-----------------------------------------------------------------------------
(* prime fields *)
FpAdd(p, a, b) == AddMod(a, b, p)
FpSub(p, a, b) == SubMod(a, b, p)
FpNeg(p, a)    == IF a = Zero THEN Zero ELSE Sub(p, a)
FpDbl(p, a)    == AddMod(a, a, p)
FpMul(p, a, b) == MulMod(a, b, p)
FpSqr(p, a)    == MulMod(a, a, p)
FpPow(p, a, e) == PowMod(a, e, p)
FpInv(p, a)    == InvMod(a, p)                       \* a # 0
(* Euler: a^((p-1)/2) is 0, 1 or p-1 *)
FpLegendre(p, a) == LET t == PowMod(a, Div(Sub(p, One), Two), p)
                    IN IF t = Zero THEN 0 ELSE IF t = One THEN 1 ELSE -1
FpSgn0(a) == Bit(a, 0)
FpInRange(p, n) == Lt(n, p)

(* Fq *)
FqAdd(a, b) == AddMod(a, b, Q)
FqSub(a, b) == SubMod(a, b, Q)
FqNeg(a)    == IF a = Zero THEN Zero ELSE Sub(Q, a)
FqMul(a, b) == MulMod(a, b, Q)
FqSqr(a)    == MulMod(a, a, Q)
FqInv(a)    == InvMod(a, Q)
FqPow(a, e) == PowMod(a, e, Q)
FqLegendre(a) == FpLegendre(Q, a)
FqIsSquare(a) == FqLegendre(a) # -1
(* q = 3 mod 4: the candidate a^((q+1)/4); it is a root iff a is a square *)
FqSqrtCand(a) == PowMod(a, Div(Add(Q, One), Four), Q)
FqInt(n) == FromInt(n)                               \* small non-negative integer

-----------------------------------------------------------------------------
(* Fq2 = Fq[u]/(u^2 + 1) *)
F2Zero == <<Zero, Zero>>
F2One  == <<One, Zero>>
F2(a0, a1) == <<a0, a1>>
F2OfFq(a) == <<a, Zero>>
F2Add(a, b) == <<FqAdd(a[1], b[1]), FqAdd(a[2], b[2])>>
F2Sub(a, b) == <<FqSub(a[1], b[1]), FqSub(a[2], b[2])>>
F2Neg(a)    == <<FqNeg(a[1]), FqNeg(a[2])>>
F2Dbl(a)    == F2Add(a, a)
(* (a0 + a1 u)(b0 + b1 u) = a0 b0 - a1 b1 + (a0 b1 + a1 b0) u *)
F2Mul(a, b) == <<FqSub(FqMul(a[1], b[1]), FqMul(a[2], b[2])),
                 FqAdd(FqMul(a[1], b[2]), FqMul(a[2], b[1]))>>
F2Sqr(a)    == F2Mul(a, a)
F2Conj(a)   == <<a[1], FqNeg(a[2])>>
F2Norm(a)   == FqAdd(FqSqr(a[1]), FqSqr(a[2]))      \* a * conj(a), in Fq
F2MulFq(a, s) == <<FqMul(a[1], s), FqMul(a[2], s)>>
F2Inv(a)    == F2MulFq(F2Conj(a), FqInv(F2Norm(a))) \* a # 0
Xi          == <<One, One>>                          \* 1 + u, the cubic non-residue
F2MulXi(a)  == F2Mul(a, Xi)

RECURSIVE F2PowH(_,_,_,_)
F2PowH(a, e, i, acc) ==
  IF i < 0 THEN acc
  ELSE LET s == F2Mul(acc, acc)
       IN F2PowH(a, e, i-1, IF Bit(e, i) = 1 THEN F2Mul(s, a) ELSE s)
F2Pow(a, e) == F2PowH(a, e, NumBits(e) - 1, F2One)

(* quadratic character of a in Fq2 = Euler symbol of its norm in Fq *)
F2Legendre(a) == FqLegendre(F2Norm(a))
F2LegendreEuler(a) == LET t == F2Pow(a, Div(Sub(Mul(Q, Q), One), Two))
                      IN IF t = F2Zero THEN 0 ELSE IF t = F2One THEN 1 ELSE -1
F2IsSquare(a) == F2Legendre(a) # -1
(* RFC 9380 sgn0 for m = 2: parity of the first non-zero coefficient, c0 first *)
F2Sgn0(a) == IF a[1] # Zero THEN Bit(a[1], 0) ELSE Bit(a[2], 0)
(* ordering: u-coefficient most significant *)
F2Cmp(a, b) == IF Cmp(a[2], b[2]) # 0 THEN Cmp(a[2], b[2]) ELSE Cmp(a[1], b[1])

(* a square root by the "complex method" (not the algorithm of the code):   *)
(* with n = sqrt(norm a) in Fq, x0^2 = (a0 +- n)/2 and x1 = a1 / (2 x0).     *)
(* Returns <<TRUE, root>> or <<FALSE, F2Zero>>.                              *)
LOCAL Half == FqInv(Two)
F2SqrtTry(a, n) ==
  LET t  == FqMul(FqAdd(a[1], n), Half)
      x0 == FqSqrtCand(t)
  IN IF FqSqr(x0) = t /\ x0 # Zero
     THEN <<TRUE, <<x0, FqMul(a[2], FqInv(FpDbl(Q, x0)))>> >>
     ELSE <<FALSE, F2Zero>>
F2Sqrt(a) ==
  IF a = F2Zero THEN <<TRUE, F2Zero>>
  ELSE IF a[2] = Zero
  THEN \* a in Fq: root is real if a is a square in Fq, purely imaginary otherwise
       LET s == FqSqrtCand(a[1])
       IN IF FqSqr(s) = a[1] THEN <<TRUE, <<s, Zero>> >>
          ELSE LET s2 == FqSqrtCand(FqNeg(a[1])) IN <<TRUE, <<Zero, s2>> >>
  ELSE LET nn == F2Norm(a)
           n  == FqSqrtCand(nn)
       IN IF FqSqr(n) # nn THEN <<FALSE, F2Zero>>
          ELSE LET r1 == F2SqrtTry(a, n)
               IN IF r1[1] THEN r1 ELSE F2SqrtTry(a, FqNeg(n))

(* Frobenius: by definition x -> x^(q^k); on Fq2 it is conjugation for odd k *)
RECURSIVE QPow(_)
QPow(k) == IF k = 0 THEN One ELSE Mul(Q, QPow(k-1))
F2FrobDef(a, k) == F2Pow(a, QPow(k))
F2Frob(a, k)    == IF k % 2 = 0 THEN a ELSE F2Conj(a)

-----------------------------------------------------------------------------
(* Fq6 = Fq2[v]/(v^3 - xi) *)
F6Zero == <<F2Zero, F2Zero, F2Zero>>
F6One  == <<F2One, F2Zero, F2Zero>>
F6OfF2(a) == <<a, F2Zero, F2Zero>>
F6Add(a, b) == <<F2Add(a[1], b[1]), F2Add(a[2], b[2]), F2Add(a[3], b[3])>>
F6Sub(a, b) == <<F2Sub(a[1], b[1]), F2Sub(a[2], b[2]), F2Sub(a[3], b[3])>>
F6Neg(a)    == <<F2Neg(a[1]), F2Neg(a[2]), F2Neg(a[3])>>
F6Dbl(a)    == F6Add(a, a)
(* schoolbook, then v^3 = xi, v^4 = xi v *)
F6Mul(a, b) ==
  <<F2Add(F2Mul(a[1], b[1]), F2MulXi(F2Add(F2Mul(a[2], b[3]), F2Mul(a[3], b[2])))),
    F2Add(F2Add(F2Mul(a[1], b[2]), F2Mul(a[2], b[1])), F2MulXi(F2Mul(a[3], b[3]))),
    F2Add(F2Add(F2Mul(a[1], b[3]), F2Mul(a[2], b[2])), F2Mul(a[3], b[1]))>>
F6Sqr(a)    == F6Mul(a, a)
F6MulF2(a, s) == <<F2Mul(a[1], s), F2Mul(a[2], s), F2Mul(a[3], s)>>
(* multiplication by v: (a0 + a1 v + a2 v^2) v = xi a2 + a0 v + a1 v^2 *)
F6MulV(a)   == <<F2MulXi(a[3]), a[1], a[2]>>
(* inverse through the norm to Fq2 (adjugate of the multiplication matrix) *)
F6Inv(a) ==
  LET t0 == F2Sub(F2Sqr(a[1]), F2MulXi(F2Mul(a[2], a[3])))
      t1 == F2Sub(F2MulXi(F2Sqr(a[3])), F2Mul(a[1], a[2]))
      t2 == F2Sub(F2Sqr(a[2]), F2Mul(a[1], a[3]))
      n  == F2Add(F2Mul(a[1], t0), F2MulXi(F2Add(F2Mul(a[3], t1), F2Mul(a[2], t2))))
  IN F6MulF2(<<t0, t1, t2>>, F2Inv(n))

-----------------------------------------------------------------------------
(* Fq12 = Fq6[w]/(w^2 - v) *)
F12Zero == <<F6Zero, F6Zero>>
F12One  == <<F6One, F6Zero>>
F12OfF6(a) == <<a, F6Zero>>
F12Add(a, b) == <<F6Add(a[1], b[1]), F6Add(a[2], b[2])>>
F12Sub(a, b) == <<F6Sub(a[1], b[1]), F6Sub(a[2], b[2])>>
F12Neg(a)    == <<F6Neg(a[1]), F6Neg(a[2])>>
F12Dbl(a)    == F12Add(a, a)
F12Mul(a, b) == <<F6Add(F6Mul(a[1], b[1]), F6MulV(F6Mul(a[2], b[2]))),
                  F6Add(F6Mul(a[1], b[2]), F6Mul(a[2], b[1]))>>
F12Sqr(a)    == F12Mul(a, a)
F12Conj(a)   == <<a[1], F6Neg(a[2])>>
(* norm to Fq6: a0^2 - v a1^2;   1/a = conj(a)/norm *)
F12Inv(a) == LET n == F6Inv(F6Sub(F6Sqr(a[1]), F6MulV(F6Sqr(a[2]))))
             IN <<F6Mul(a[1], n), F6Neg(F6Mul(a[2], n))>>

RECURSIVE F12PowH(_,_,_,_)
F12PowH(a, e, i, acc) ==
  IF i < 0 THEN acc
  ELSE LET s == F12Mul(acc, acc)
       IN F12PowH(a, e, i-1, IF Bit(e, i) = 1 THEN F12Mul(s, a) ELSE s)
F12Pow(a, e) == F12PowH(a, e, NumBits(e) - 1, F12One)

RECURSIVE F6PowH(_,_,_,_)
F6PowH(a, e, i, acc) ==
  IF i < 0 THEN acc
  ELSE LET s == F6Mul(acc, acc)
       IN F6PowH(a, e, i-1, IF Bit(e, i) = 1 THEN F6Mul(s, a) ELSE s)
F6Pow(a, e) == F6PowH(a, e, NumBits(e) - 1, F6One)

(***************************************************************************)
(* Frobenius.  Definition: x -> x^(q^k)  (F6FrobDef / F12FrobDef).         *)
(* Bulk evaluation: an element of Fq12 is sum_{m=0..5} c_m w^m with        *)
(* c_m in Fq2  (w^2 = v, so <<<<a0,a1,a2>>, <<b0,b1,b2>>>> has             *)
(* c = (a0, b0, a1, b1, a2, b2)); w^6 = xi, hence                          *)
(*    (c w^m)^(q^k) = conj^k(c) * (xi^((q^k-1)/6))^m * w^m.                *)
(* gamma(k) is computed here with F2Pow, not copied from the code; MC      *)
(* checks Frob = FrobDef on samples.  x^(q^12) = x on Fq12, so k is        *)
(* reduced modulo 12 (6 on Fq6, 2 on Fq2).                                 *)
(***************************************************************************)
F6FrobDef(a, k)  == F6Pow(a, QPow(k))
F12FrobDef(a, k) == F12Pow(a, QPow(k))
GammaDef(k) == F2Pow(Xi, Div(Sub(QPow(k), One), FromInt(6)))
(* (q^k-1)/6 = (q-1)/6 + q (q^(k-1)-1)/6, hence gamma(k) = gamma(1) * gamma(k-1)^q; *)
(* x -> x^q on Fq2 is conjugation.  MC_Fields checks Gamma = GammaDef for k <= 12. *)
Gamma1 == GammaDef(1)
RECURSIVE Gamma(_)
Gamma(k) == IF k = 0 THEN F2One ELSE F2Mul(Gamma1, F2Conj(Gamma(k-1)))
RECURSIVE F2PowSmall(_,_)
F2PowSmall(a, n) == IF n = 0 THEN F2One ELSE F2Mul(a, F2PowSmall(a, n-1))
LOCAL FrobCoeff(c, k, g, m) == F2Mul(F2Frob(c, k), F2PowSmall(g, m))
F12FrobK(a, k) == \* 0 <= k
  LET g == Gamma(k)
  IN << <<FrobCoeff(a[1][1], k, g, 0), FrobCoeff(a[1][2], k, g, 2), FrobCoeff(a[1][3], k, g, 4)>>,
        <<FrobCoeff(a[2][1], k, g, 1), FrobCoeff(a[2][2], k, g, 3), FrobCoeff(a[2][3], k, g, 5)>> >>
F12Frob(a, k) == F12FrobK(a, k % 12)
F6FrobK(a, k) ==
  LET g == Gamma(k)
  IN <<FrobCoeff(a[1], k, g, 0), FrobCoeff(a[2], k, g, 2), FrobCoeff(a[3], k, g, 4)>>
F6Frob(a, k) == F6FrobK(a, k % 6)

(* embeddings used to state "sparse product = dense product" *)
F12Of014(c0, c1, c4) == << <<c0, c1, F2Zero>>, <<F2Zero, c4, F2Zero>> >>
F6Of01(c0, c1) == <<c0, c1, F2Zero>>
F6Of1(c1) == <<F2Zero, c1, F2Zero>>
=============================================================================
