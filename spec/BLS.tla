--------------------------------- MODULE BLS ---------------------------------
(***************************************************************************)
(* The curves of BLS12-381:                                                *)
(*   E1  : y^2 = x^3 + 4        over Fq    (G1 = its subgroup of order r)  *)
(*   E2  : y^2 = x^3 + 4(1+u)   over Fq2   (G2)                            *)
(*   E1p : y^2 = x^3 + A'x + B' over Fq    (11-isogenous to E1, RFC 9380)  *)
(*   E2p : y^2 = x^3 + A'x + B' over Fq2   ( 3-isogenous to E2)            *)
(***************************************************************************)
EXTENDS Fields, IsoConst

E1 == INSTANCE Curve WITH FZero <- Zero, FOne <- One, FAdd <- FqAdd, FSub <- FqSub,
        FMul <- FqMul, FNeg <- FqNeg, FInv <- FqInv, CA <- Zero, CB <- Four
E2 == INSTANCE Curve WITH FZero <- F2Zero, FOne <- F2One, FAdd <- F2Add, FSub <- F2Sub,
        FMul <- F2Mul, FNeg <- F2Neg, FInv <- F2Inv, CA <- F2Zero, CB <- <<Four, Four>>
E1p == INSTANCE Curve WITH FZero <- Zero, FOne <- One, FAdd <- FqAdd, FSub <- FqSub,
        FMul <- FqMul, FNeg <- FqNeg, FInv <- FqInv, CA <- E1pA, CB <- E1pB
E2p == INSTANCE Curve WITH FZero <- F2Zero, FOne <- F2One, FAdd <- F2Add, FSub <- F2Sub,
        FMul <- F2Mul, FNeg <- F2Neg, FInv <- F2Inv, CA <- E2pA, CB <- E2pB

Gen1 == <<G1X, G1Y>>
Gen2 == << <<G2X0, G2X1>>, <<G2Y0, G2Y1>> >>

(* membership in the order-r subgroup, by definition *)
InG1(P) == E1!OnCurve(P) /\ E1!IsO(E1!PMul(P, R))
InG2(P) == E2!OnCurve(P) /\ E2!IsO(E2!PMul(P, R))

(* the order-3 points of E1: (0, +-2) *)
T3 == <<Zero, Two>>

(* primitive cube root of unity zeta in Fq: (x,y) -> (zeta x, y) is an       *)
(* automorphism of both curves (j = 0); used to build same-y pairs.          *)
(* zeta = 2^((q-1)/3) if that is not 1 (any non-cube works)                  *)
Zeta == FqPow(Two, Div(Sub(Q, One), Three))
Phi1(P) == IF E1!IsO(P) THEN P ELSE <<FqMul(Zeta, P[1]), P[2]>>
Phi2(P) == IF E2!IsO(P) THEN P ELSE <<F2MulFq(P[1], Zeta), P[2]>>

(* first point with abscissa >= x0 (try-and-increment); depth bounded *)
RECURSIVE TryX1(_,_)
TryX1(x, n) == LET g == E1!Rhs(x) s == FqSqrtCand(g)
               IN IF FqSqr(s) = g THEN <<x, s>>
                  ELSE IF n = 0 THEN <<>> ELSE TryX1(FqAdd(x, One), n-1)
RECURSIVE TryX2(_,_)
TryX2(x, n) == LET g == E2!Rhs(x) s == F2Sqrt(g)
               IN IF s[1] THEN <<x, s[2]>>
                  ELSE IF n = 0 THEN <<>> ELSE TryX2(F2Add(x, F2One), n-1)
=============================================================================
