
