------------------------------- MODULE SqrtAlg -------------------------------
(***************************************************************************)
(* The square-root routine of the quadratic extension (src/bls12_381/      *)
(* fq2.rs, "Algorithm 9" of Adj / Rodriguez-Henriquez for q = 3 mod 4) as  *)
(* a state machine, one action per statement group of the code, over the   *)
(* extension F_p[u]/(u^2+1) of a SMALL prime field p = 3 mod 4.  TLC runs  *)
(* it from EVERY element of F_p^2 for every p in Primes and checks         *)
(*   Correct      None exactly for non-squares; Some(b) implies b^2 = a    *)
(*   AlphaNorm    alpha = a^((p-1)/2) has norm +1 for squares, -1 for      *)
(*                non-squares (what Gen_C18 uses to construct inputs with  *)
(*                a prescribed alpha in the real field)                    *)
(*   A0IsNorm     the rejection test a0 = alpha^(p+1) = -1 is that norm    *)
(*   Branches     the three exits (reject / alpha = -1 / generic) are all  *)
(*                taken, and the class alpha.c0 = -1 of non-squares that a *)
(*                reordered comparison would mis-handle is inhabited       *)
(*                (reported through the coverage of the action ExitSome)   *)
(* The design of the routine is what is model checked here; the real       *)
(* routine is bound to it by trace validation of its results on inputs of  *)
(* every branch class (Gen_C18, wl c18).                                   *)
(***************************************************************************)
EXTENDS Integers, Sequences, FiniteSets, TLC

CONSTANT Primes
VARIABLES p, a, pc, a1, alpha, a0, res
vars == <<p, a, pc, a1, alpha, a0, res>>

M(x) == x % p
Add2(x, y) == <<M(x[1] + y[1]), M(x[2] + y[2])>>
Mul2(x, y) == <<M(x[1] * y[1] - x[2] * y[2] + p * p), M(x[1] * y[2] + x[2] * y[1])>>
Conj2(x) == <<x[1], M(p - x[2])>>
Norm2(x) == M(x[1] * x[1] + x[2] * x[2])
One2 == <<1, 0>>
NegOne2 == <<p - 1, 0>>
RECURSIVE Pow2e(_,_)
Pow2e(x, e) == IF e = 0 THEN One2 ELSE Mul2(x, Pow2e(x, e - 1))
Elems == (0..(p - 1)) \X (0..(p - 1))
IsSquare(x) == \E b \in Elems : Mul2(b, b) = x
None == <<"none">>

Init == /\ p \in Primes
        /\ a \in (0..(p - 1)) \X (0..(p - 1))
        /\ pc = "start" /\ a1 = One2 /\ alpha = One2 /\ a0 = One2 /\ res = None

Zero == pc = "start" /\ a = <<0, 0>> /\ res' = <<"some", <<0, 0>>>> /\ pc' = "done"
                     /\ UNCHANGED <<p, a, a1, alpha, a0>>
(* a1 = a^((p-3)/4); alpha = a1^2 a; a0 = frobenius(alpha) alpha *)
Compute == /\ pc = "start" /\ a # <<0, 0>>
           /\ LET t == Pow2e(a, (p - 3) \div 4)
                  al == Mul2(Mul2(t, t), a)
              IN a1' = t /\ alpha' = al /\ a0' = Mul2(Conj2(al), al)
           /\ pc' = "test" /\ UNCHANGED <<p, a, res>>
Reject == pc = "test" /\ a0 = NegOne2 /\ res' = None /\ pc' = "done" /\ UNCHANGED <<p, a, a1, alpha, a0>>
(* x0 = a1 a; alpha = -1: the root is u x0 *)
ExitImag == /\ pc = "test" /\ a0 # NegOne2 /\ alpha = NegOne2
            /\ res' = <<"some", Mul2(Mul2(a1, a), <<0, 1>>)>> /\ pc' = "done"
            /\ UNCHANGED <<p, a, a1, alpha, a0>>
(* otherwise b = (1 + alpha)^((p-1)/2), root b x0 *)
ExitSome == /\ pc = "test" /\ a0 # NegOne2 /\ alpha # NegOne2
            /\ res' = <<"some", Mul2(Mul2(a1, a), Pow2e(Add2(alpha, One2), (p - 1) \div 2))>> /\ pc' = "done"
            /\ UNCHANGED <<p, a, a1, alpha, a0>>
Next == Zero \/ Compute \/ Reject \/ ExitImag \/ ExitSome
Spec == Init /\ [][Next]_vars

Correct == pc = "done" =>
             /\ (res = None <=> ~IsSquare(a))
             /\ (res # None => Mul2(res[2], res[2]) = a)
AlphaNorm == pc = "test" =>
             /\ alpha = Pow2e(a, (p - 1) \div 2)
             /\ Norm2(alpha) = (IF IsSquare(a) THEN 1 ELSE p - 1)
A0IsNorm == pc = "test" => a0 = <<Norm2(alpha), 0>>
(* the non-squares whose alpha has real part -1 exist whenever -2 is a square mod p (p = 3 mod 8) *)
SpecialClassInhabited ==   \* a fact about the field, evaluated once per prime (in the initial state of a = 0)
  (pc = "start" /\ a = <<0, 0>> /\ p % 8 = 3 /\ p > 3) =>
     \E x \in Elems : Pow2e(x, (p - 1) \div 2)[1] = p - 1 /\ ~IsSquare(x)
=============================================================================
