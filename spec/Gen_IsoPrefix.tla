---------------------------- MODULE Gen_IsoPrefix ----------------------------
(***************************************************************************)
(* Script generation (spec -> impl) for the 11-isogeny: points of E1' at   *)
(* which a proper LEADING PREFIX  k_n x^d + ... + k_(n-d)  of one of the   *)
(* four polynomials vanishes, i.e. at which the Horner accumulator of an   *)
(* evaluation passes through zero before the last coefficient is added.    *)
(* A loop that treats a vanished accumulator as final is wrong exactly     *)
(* there.  Roots over Fq with PolyFq; quick tier: prefixes of degree <= 4. *)
(***************************************************************************)
EXTENDS PolyFq, JMap, Json, IOUtils, SequencesExt, TLC
OutDir == IOEnv.OUT
Thorough == IOEnv.VERIF_TIER = "thorough"
MaxDeg == IF Thorough THEN 20 ELSE 4

Polys == << Iso1XNUM, Iso1XDEN, Iso1YNUM, Iso1YDEN >>
Prefix(cs, d) == SubSeq(cs, Len(cs) - d, Len(cs))            \* ascending coefficients of the degree-d prefix
PrefixRoots(cs) ==
  FlattenSeq([d \in 1..(IF Len(cs) - 2 < MaxDeg THEN Len(cs) - 2 ELSE MaxDeg) |->
                RootsOf(DistinctRootPart(PNorm(Prefix(cs, d))), 1)])
Roots == TLCEval(FlattenSeq([i \in 1..4 |-> PrefixRoots(Polys[i])]))
Pts == TLCEval(FlattenSeq([i \in 1..Len(Roots) |->
          LET g == EpRhs("G1", Roots[i])  y == FqSqrtCand(g) IN
          IF FqSqr(y) = g /\ PolyEval("G1", Iso1XDEN, Roots[i]) # Zero /\ PolyEval("G1", Iso1YDEN, Roots[i]) # Zero
          THEN << <<Roots[i], y>>, <<Roots[i], FqNeg(y)>> >> ELSE <<>>]))
ASSUME PrintT(<<"prefix roots", Len(Roots), "points", Len(Pts)>>)
ASSUME Len(Pts) >= 2
ASSUME \A i \in 1..Len(Pts) : E1p!OnCurve(Pts[i]) /\ E1!OnCurve(Iso("G1", Pts[i]))
Lam(i) == FqPow(<<5>>, FromInt(191 + i))
Jac(P, i) == IF i = 0 THEN <<P[1], P[2], One>>
             ELSE LET l == Lam(i) l2 == FqSqr(l) IN <<FqMul(P[1], l2), FqMul(P[2], FqMul(l2, l)), l>>
Ops == FlattenSeq([i \in 1..Len(Pts) |->
         << [op |-> "iso", g |-> "G1", p |-> Jac(Pts[i], 0), cls |-> "horner-prefix-root"],
            [op |-> "iso", g |-> "G1", p |-> Jac(Pts[i], i), cls |-> "horner-prefix-root-rescaled"] >>])
ASSUME ndJsonSerialize(OutDir \o "/iso-prefix-100.script.ndjson", Ops)
=============================================================================
