------------------------------ MODULE Gen_Iso ------------------------------
(***************************************************************************)
(* Script generation for C16 (spec -> impl): the KERNEL of the isogenies.  *)
(* The x-denominator of the 11-isogeny is the square of a quintic whose    *)
(* five roots lie in Fq; at each root the curve polynomial of E1' is a     *)
(* square, so E1' has ten rational kernel points (r, +-y).  They are found *)
(* here by polynomial root finding (PolyFq) and certified: xden(r) = 0,    *)
(* the point is on E1', its image under the specification's Iso is O.      *)
(* For the 3-isogeny the x-denominator is (x - r)^2 with r in Fq2 and the  *)
(* curve polynomial of E2' is a NON-square at r: no rational kernel point  *)
(* exists (asserted below), in accordance with 3 not dividing #E2'(Fq2)/r..*)
(***************************************************************************)
EXTENDS PolyFq, JMap, Json, IOUtils, SequencesExt, TLC

OutDir == IOEnv.OUT
KRoots == RootsOf(DistinctRootPart(Iso1XDEN), 1)
KerPts == FlattenSeq([i \in 1..Len(KRoots) |->
            LET g == EpRhs("G1", KRoots[i])  y == FqSqrtCand(g) IN
            IF FqSqr(y) = g THEN << <<KRoots[i], y>>, <<KRoots[i], FqNeg(y)>> >> ELSE <<>>])
ASSUME Len(KRoots) = 5 /\ Len(KerPts) = 10
ASSUME \A i \in 1..10 : /\ E1p!OnCurve(KerPts[i])
                        /\ PolyEval("G1", Iso1XDEN, KerPts[i][1]) = Zero
                        /\ Iso("G1", KerPts[i]) = <<>>
(* the kernel is a group: the sum of two kernel points is a kernel point or O *)
ASSUME \A i, j \in 1..10 : Iso("G1", E1p!PAdd(KerPts[i], KerPts[j])) = <<>>

(* G2: xden = x^2 + c1 x + c0 = (x + c1/2)^2, and no rational point above the root *)
R2 == F2Neg(F2Mul(Iso2XDEN[2], F2Inv(<<Two, Zero>>)))
ASSUME Len(Iso2XDEN) = 3 /\ PolyEval("G2", Iso2XDEN, R2) = F2Zero
ASSUME F2Legendre(EpRhs("G2", R2)) = -1

(* points whose image has abscissa 0 (the image is then one of the order-3 points (0, +-2) of E1): *)
(* rational roots of the x-NUMERATOR above which E1' has points                                     *)
NRoots == RootsOf(DistinctRootPart(Iso1XNUM), 1)
ZeroXPts == FlattenSeq([i \in 1..Len(NRoots) |->
              LET g == EpRhs("G1", NRoots[i])  y == FqSqrtCand(g) IN
              IF FqSqr(y) = g /\ PolyEval("G1", Iso1XDEN, NRoots[i]) # Zero
              THEN << <<NRoots[i], y>>, <<NRoots[i], FqNeg(y)>> >> ELSE <<>>])
ASSUME PrintT(<<"points with image abscissa 0", Len(ZeroXPts)>>)
ASSUME \A i \in 1..Len(ZeroXPts) :
          LET I == Iso("G1", ZeroXPts[i]) IN E1p!OnCurve(ZeroXPts[i]) /\ Len(I) = 2 /\ I[1] = Zero /\ E1!OnCurve(I)

(* points lying on BOTH curves (E1' and E1 agree where A'x + B' = 4): a membership test of the   *)
(* target curve cannot tell "already mapped" from "not yet mapped" on them                          *)
CommonX == FqMul(FqSub(Four, E1pB), FqInv(E1pA))
CommonPts == LET g == EpRhs("G1", CommonX)  y == FqSqrtCand(g) IN
             IF FqSqr(y) = g THEN << <<CommonX, y>>, <<CommonX, FqNeg(y)>> >> ELSE <<>>
ASSUME PrintT(<<"points on both curves", Len(CommonPts)>>)
ASSUME \A i \in 1..Len(CommonPts) : E1p!OnCurve(CommonPts[i]) /\ E1!OnCurve(CommonPts[i])
                                      /\ Iso("G1", CommonPts[i]) # CommonPts[i]
(* points whose image has the SAME abscissa as the point itself: xnum(x) = x xden(x) *)
FixRoots == RootsOf(DistinctRootPart(PSub(Iso1XNUM, PMul(PX, Iso1XDEN))), 1)
FixXPts == FlattenSeq([i \in 1..Len(FixRoots) |->
              LET g == EpRhs("G1", FixRoots[i])  y == FqSqrtCand(g) IN
              IF FqSqr(y) = g /\ PolyEval("G1", Iso1XDEN, FixRoots[i]) # Zero
              THEN << <<FixRoots[i], y>>, <<FixRoots[i], FqNeg(y)>> >> ELSE <<>>])
ASSUME PrintT(<<"points with image abscissa = own abscissa", Len(FixXPts)>>)
ASSUME \A i \in 1..Len(FixXPts) : Iso("G1", FixXPts[i])[1] = FixXPts[i][1]

Lam(i) == FqPow(<<5>>, FromInt(91 + i))
Jac(P, i) == IF i = 0 THEN <<P[1], P[2], One>>
             ELSE LET l == Lam(i) l2 == FqSqr(l) IN <<FqMul(P[1], l2), FqMul(P[2], FqMul(l2, l)), l>>
Generic(i) == SSWU("G1", FqPow(<<7>>, FromInt(300 + i)))

Script ==
  FlattenSeq([i \in 1..10 |->
    << [op |-> "iso", g |-> "G1", p |-> Jac(KerPts[i], 0), cls |-> "kernel-point"],
       [op |-> "iso", g |-> "G1", p |-> Jac(KerPts[i], i), cls |-> "kernel-point-rescaled"],
       \* kernel point + generic point has the image of the generic point
       [op |-> "iso_hom", g |-> "G1", p |-> Jac(KerPts[i], i + 20), q |-> Jac(Generic(i), i + 40), cls |-> "kernel-plus-generic"] >>])
  \o << [op |-> "iso_hom", g |-> "G1", p |-> Jac(KerPts[1], 3), q |-> Jac(KerPts[3], 0), cls |-> "kernel-plus-kernel"] >>
  \o FlattenSeq([i \in 1..Len(ZeroXPts) |->
       << [op |-> "iso", g |-> "G1", p |-> Jac(ZeroXPts[i], 0), cls |-> "image-abscissa-zero"],
          [op |-> "iso", g |-> "G1", p |-> Jac(ZeroXPts[i], i + 60), cls |-> "image-abscissa-zero-rescaled"] >>])
  \o FlattenSeq([i \in 1..Len(CommonPts) |->
       << [op |-> "iso", g |-> "G1", p |-> Jac(CommonPts[i], 0), cls |-> "on-both-curves"],
          [op |-> "iso", g |-> "G1", p |-> Jac(CommonPts[i], i + 70), cls |-> "on-both-curves-rescaled"],
          [op |-> "iso_hom", g |-> "G1", p |-> Jac(CommonPts[i], i + 72), q |-> Jac(Generic(i + 11), 0), cls |-> "on-both-curves-plus-generic"] >>])
  \o FlattenSeq([i \in 1..Len(FixXPts) |->
       << [op |-> "iso", g |-> "G1", p |-> Jac(FixXPts[i], 0), cls |-> "image-abscissa-unchanged"],
          [op |-> "iso", g |-> "G1", p |-> Jac(FixXPts[i], i + 80), cls |-> "image-abscissa-unchanged-rescaled"] >>])

ASSUME ndJsonSerialize(OutDir \o "/iso-kernel-100.script.ndjson", SubSeq(Script, 1, 16))
ASSUME ndJsonSerialize(OutDir \o "/iso-kernel-101.script.ndjson", SubSeq(Script, 17, 31))
ASSUME ndJsonSerialize(OutDir \o "/iso-kernel-102.script.ndjson", SubSeq(Script, 32, Len(Script)))
=============================================================================
