SPECIFICATION Spec
CONSTANTS
  WORD = 3
  NW = 3
  C = 3
  N = 31
  PointChoices <- MCPoints2a
  Scalars <- MCScalars
INVARIANTS Correct DigitsAgree BucketsCleared Tiling ResInv TypeOK
CHECK_DEADLOCK FALSE
