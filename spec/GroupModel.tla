------------------------------- MODULE GroupModel -------------------------------
(***************************************************************************)
(* "Every sequence of group operations ends in the point predicted by the  *)
(* abstract group" (C01), at the level of the specification: a register    *)
(* file holds, side by side, a LABEL (a, b) in Z x Z_3 - the abstract      *)
(* group element [a]g + [b]T3 - and the concrete affine point computed by  *)
(* the chord-and-tangent law of Curve.tla.  Every operation updates both;  *)
(* the invariant says the concrete point is the one the label denotes.     *)
(* TLC explores ALL programs over the register file (breadth first, labels *)
(* bounded), so every reachable configuration of exceptional operands      *)
(* (equal, inverse, identity, order-3 component only) is visited.          *)
(***************************************************************************)
EXTENDS BLS, TLC
CONSTANTS NRegs, MaxA

VARIABLES lab, pt
vars == <<lab, pt>>
Regs == 1..NRegs

Denote(l) == E1!PAdd(E1!PMulInt(Gen1, l[1]), E1!PMulInt(T3, l[2]))
LAdd(l, m) == <<l[1] + m[1], (l[2] + m[2]) % 3>>
LNeg(l) == <<-l[1], (3 - l[2]) % 3>>

Init == /\ lab \in [Regs -> {<<0, 0>>, <<1, 0>>, <<0, 1>>, <<1, 2>>}]
        /\ pt = [i \in Regs |-> Denote(lab[i])]

OpAdd(d, s) == lab' = [lab EXCEPT ![d] = LAdd(lab[d], lab[s])] /\ pt' = [pt EXCEPT ![d] = E1!PAdd(pt[d], pt[s])]
OpSub(d, s) == lab' = [lab EXCEPT ![d] = LAdd(lab[d], LNeg(lab[s]))] /\ pt' = [pt EXCEPT ![d] = E1!PSub(pt[d], pt[s])]
OpDbl(d)    == lab' = [lab EXCEPT ![d] = LAdd(lab[d], lab[d])] /\ pt' = [pt EXCEPT ![d] = E1!PDbl(pt[d])]
OpNeg(d)    == lab' = [lab EXCEPT ![d] = LNeg(lab[d])] /\ pt' = [pt EXCEPT ![d] = E1!PNeg(pt[d])]

Next == \E d, s \in Regs : OpAdd(d, s) \/ OpSub(d, s) \/ OpDbl(d) \/ OpNeg(d)
Spec == Init /\ [][Next]_vars
Bounded == \A i \in Regs : lab[i][1] <= MaxA /\ -lab[i][1] <= MaxA

Refines == \A i \in Regs : pt[i] = Denote(lab[i])
OnCurveInv == \A i \in Regs : E1!OnCurve(pt[i])
(* equality of points is equality of labels modulo the orders (here: labels are small, r is huge) *)
EqReflects == \A i, j \in Regs : (pt[i] = pt[j]) = (lab[i] = lab[j])
(* the subgroup is closed: a label without T3-component denotes a point killed by r is checked in MC_Math;
   here: the T3-component is exactly what separates the point from the subgroup *)
SubgroupIffNoTorsion == \A i \in Regs : (lab[i][2] = 0) = (E1!PMul(pt[i], Three) = E1!PMul(E1!PMulInt(Gen1, lab[i][1]), Three) /\ E1!PAdd(pt[i], E1!PNeg(E1!PMulInt(Gen1, lab[i][1]))) = <<>>)
=============================================================================
