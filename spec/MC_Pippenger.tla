---------------------------- MODULE MC_Pippenger ----------------------------
(* Exhaustive configurations of Pippenger: ALL scalar tuples below 2^(WORD*NW-1)  *)
(* (top bit clear, the code's precondition), every window, several point tuples   *)
(* (equal points, inverse points, an identity point, generic).                    *)
EXTENDS Pippenger
MCScalars(len) == [1..len -> 0..(Pow2(WORD * NW - 1) - 1)]
MCPoints2 == { <<1, 1>>, <<1, N - 1>>, <<1, 0>>, <<1, 5>> }
MCPoints2a == { <<1, 5>> }
MCPoints3 == { <<1, 5, N - 1>> }
MCPoints1 == { <<1>>, <<0>> }
MCPoints0 == { <<>> }
=============================================================================
