---- MODULE MC_Group ----
EXTENDS GroupModel
====
