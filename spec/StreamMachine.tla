---------------------------- MODULE StreamMachine ----------------------------
(***************************************************************************)
(* Stream (de)serialization (C19) over ABSTRACT items: every written value *)
(* is a run of cells <<id, k>> (k-th byte of item id); types have fixed    *)
(* sizes.  The machine writes items, flips the written bytes (optionally   *)
(* truncated) into the read buffer and reads typed items back.  It states  *)
(* the cursor discipline independently of any encoding: a successful read  *)
(* consumes exactly Size(type) cells and returns the item those cells      *)
(* belong to; fewer remaining cells, or cells that are not exactly one     *)
(* whole item of that type, give an error and no value.  JStream!StStep is *)
(* the same machine over concrete bytes.                                   *)
(***************************************************************************)
EXTENDS Integers, Sequences
CONSTANTS Types, Size(_), MaxItems

VARIABLES wbuf, rbuf, pos, items, log
vars == <<wbuf, rbuf, pos, items, log>>
(* items: sequence of types written; log: [ty, res, before, after] of every read, res = item id (>= 1) or 0 for an error *)

Init == wbuf = <<>> /\ rbuf = <<>> /\ pos = 0 /\ items = <<>> /\ log = <<>>

Write(ty) ==
  /\ Len(items) < MaxItems
  /\ LET id == Len(items) + 1 IN
     /\ items' = Append(items, ty)
     /\ wbuf' = wbuf \o [k \in 1..Size(ty) |-> <<id, k>>]
  /\ UNCHANGED <<rbuf, pos, log>>

Flip(n) == /\ n \in 0..Len(wbuf)
           /\ rbuf' = SubSeq(wbuf, 1, n) /\ pos' = 0 /\ log' = <<>>     \* the log is per read buffer
           /\ UNCHANGED <<wbuf, items>>

WholeItem(chunk, ty) ==
  /\ Len(chunk) = Size(ty)
  /\ \A k \in 1..Len(chunk) : chunk[k][2] = k /\ chunk[k][1] = chunk[1][1]
  /\ items[chunk[1][1]] = ty

Read(ty) ==
  /\ Len(log) < MaxItems + 1
  /\ LET need == Size(ty)  rem == Len(rbuf) - pos IN
     IF rem < need
     THEN \E p \in pos..Len(rbuf) :          \* error; the cursor may stop anywhere in the rest
            /\ pos' = p
            /\ log' = Append(log, [ty |-> ty, res |-> 0, before |-> pos, after |-> p])
     ELSE LET chunk == SubSeq(rbuf, pos + 1, pos + need) IN
          IF WholeItem(chunk, ty)
          THEN /\ pos' = pos + need
               /\ log' = Append(log, [ty |-> ty, res |-> chunk[1][1], before |-> pos, after |-> pos + need])
          ELSE \E p \in pos..Len(rbuf) :
                 /\ pos' = p
                 /\ log' = Append(log, [ty |-> ty, res |-> 0, before |-> pos, after |-> p])
  /\ UNCHANGED <<wbuf, rbuf, items>>

Next == (\E ty \in Types : Write(ty)) \/ (\E n \in 0..Len(wbuf) : Flip(n)) \/ (\E ty \in Types : Read(ty))
Spec == Init /\ [][Next]_vars

(* a successful read consumed exactly the size of its type and returned an item of that type *)
ExactConsumption == \A i \in 1..Len(log) : log[i].res # 0 =>
                       /\ log[i].after = log[i].before + Size(log[i].ty)
                       /\ items[log[i].res] = log[i].ty
(* round trip: reading, from the start of an untruncated flip, the types that were written, in order,
   returns item 1, 2, 3, ... *)
RoundTrip == (rbuf = wbuf /\ \A i \in 1..Len(log) : i <= Len(items) /\ log[i].ty = items[i] /\ (i = 1 => log[i].before = 0)
                                                    /\ (i > 1 => log[i].before = log[i-1].after /\ log[i-1].res # 0))
             => \A i \in 1..Len(log) : log[i].res = i
(* a value is never produced from fewer cells than the type needs *)
NoValueFromTruncation == \A i \in 1..Len(log) : log[i].res # 0 => log[i].before + Size(log[i].ty) <= Len(rbuf)
CursorInRange == pos >= 0 /\ pos <= Len(rbuf)
=============================================================================
