------------------------------- MODULE PolyFq -------------------------------
(***************************************************************************)
(* Univariate polynomials over Fq as coefficient tuples in ascending       *)
(* degree without trailing zero (<<>> is the zero polynomial): just enough *)
(* arithmetic to FIND the Fq-rational roots of a polynomial (distinct-root *)
(* part gcd(x^q - x, f), then equal-degree splitting with                  *)
(* gcd((x + d)^((q-1)/2) - 1, h)).  Used only by generators; every root    *)
(* that is used is certified afterwards by plain evaluation.               *)
(***************************************************************************)
EXTENDS Fields, TLC

RECURSIVE PNorm(_)
PNorm(a) == IF Len(a) = 0 THEN a ELSE IF a[Len(a)] = Zero THEN PNorm(SubSeq(a, 1, Len(a) - 1)) ELSE a
PDeg(a) == Len(a) - 1                                   \* -1 for the zero polynomial
PCoef(a, i) == IF i <= Len(a) THEN a[i] ELSE Zero       \* 1-based: coefficient of x^(i-1)
PMax(m, n) == IF m > n THEN m ELSE n
PAdd(a, b) == PNorm([i \in 1..PMax(Len(a), Len(b)) |-> FqAdd(PCoef(a, i), PCoef(b, i))])
PSub(a, b) == PNorm([i \in 1..PMax(Len(a), Len(b)) |-> FqSub(PCoef(a, i), PCoef(b, i))])
PScale(a, s) == PNorm([i \in 1..Len(a) |-> FqMul(a[i], s)])
PShift(a, k) == IF Len(a) = 0 THEN a ELSE [i \in 1..(Len(a) + k) |-> IF i <= k THEN Zero ELSE a[i - k]]

RECURSIVE PConv(_,_,_,_)
PConv(a, b, k, i) == \* coefficient of x^(k-1) in a*b: sum_{i} a[i] b[k+1-i]
  IF i > Len(a) THEN Zero
  ELSE FqAdd(IF k + 1 - i >= 1 /\ k + 1 - i <= Len(b) THEN FqMul(a[i], b[k + 1 - i]) ELSE Zero, PConv(a, b, k, i + 1))
PMul(a, b) == IF Len(a) = 0 \/ Len(b) = 0 THEN <<>>
              ELSE TLCEval(PNorm([k \in 1..(Len(a) + Len(b) - 1) |-> PConv(a, b, k, 1)]))

(* remainder of a modulo b (b # 0): repeatedly cancel the leading term *)
RECURSIVE PRem(_,_)
PRem(a, b) ==
  IF Len(a) < Len(b) THEN a
  ELSE LET c == FqMul(a[Len(a)], FqInv(b[Len(b)]))
           t == PShift(PScale(b, c), Len(a) - Len(b))
       IN PRem(TLCEval(PSub(a, t)), b)
(* quotient of a by b (b # 0) *)
RECURSIVE PQuoH(_,_,_)
PQuoH(a, b, q) ==
  IF Len(a) < Len(b) THEN q
  ELSE LET c == FqMul(a[Len(a)], FqInv(b[Len(b)]))
           k == Len(a) - Len(b)
           t == PShift(PScale(b, c), k)
       IN PQuoH(TLCEval(PSub(a, t)), b, TLCEval(PAdd(q, PShift(<<c>>, k))))
PQuo(a, b) == PQuoH(a, b, <<>>)
PMonic(a) == IF Len(a) = 0 THEN a ELSE PScale(a, FqInv(a[Len(a)]))
RECURSIVE PGcd(_,_)
PGcd(a, b) == IF Len(b) = 0 THEN PMonic(a) ELSE PGcd(b, TLCEval(PRem(a, b)))
PMulMod(a, b, f) == TLCEval(PRem(PMul(a, b), f))
RECURSIVE PPowModH(_,_,_,_,_)
PPowModH(a, e, f, i, acc) ==
  IF i < 0 THEN acc
  ELSE LET s == PMulMod(acc, acc, f)
       IN PPowModH(a, e, f, i - 1, IF Bit(e, i) = 1 THEN PMulMod(s, a, f) ELSE s)
PPowMod(a, e, f) == PPowModH(PRem(a, f), e, f, NumBits(e) - 1, <<One>>)
PEval(a, x) == LET H[i \in 0..Len(a)] == IF i = 0 THEN Zero ELSE FqAdd(FqMul(H[i - 1], x), a[Len(a) + 1 - i]) IN H[Len(a)]

PX == <<Zero, One>>
(* product of (x - r) over the distinct roots r in Fq *)
DistinctRootPart(f) == PGcd(f, PSub(PPowMod(PX, Q, f), PX))
(* all roots of a squarefree product h of linear factors, as a sequence *)
RECURSIVE RootsOf(_,_)
RootsOf(h, d) ==
  IF PDeg(h) <= 0 THEN <<>>
  ELSE IF PDeg(h) = 1 THEN <<FqNeg(FqMul(h[1], FqInv(h[2])))>>
  ELSE LET t == PSub(PPowMod(<<FromInt(d), One>>, Div(Sub(Q, One), Two), h), <<One>>)
           g == PGcd(h, t)
       IN IF PDeg(g) <= 0 \/ PDeg(g) = PDeg(h) THEN RootsOf(h, d + 1)
          ELSE RootsOf(g, d + 1) \o RootsOf(PMonic(PQuo(h, g)), d + 1)
=============================================================================
