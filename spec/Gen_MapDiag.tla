------------------------------ MODULE Gen_MapDiag ------------------------------
(* Script generation (spec -> impl), split off Gen_Map because the polynomial root finding is slow. *)
EXTENDS JMap, PolyFq, Json, IOUtils, SequencesExt
OutDir == IOEnv.OUT
(***************************************************************************)
(* G2 inputs t = a + b I at which the numerator Ng of g(x1(t)) - in the    *)
(* usual projective evaluation x1 = N1/D1, N1 = B'(s^2+s+1),               *)
(* D1 = -A'(s^2+s), Ng = N1^3 + A' N1 D1^2 + B' D1^3, s = Z t^2 - is       *)
(* purely imaginary (Re Ng = 0) or lies on a diagonal (Re Ng = +-Im Ng):   *)
(* component-wise slips in Fq2 code (testing or using one coefficient      *)
(* only) show exactly where a coefficient of an intermediate vanishes or   *)
(* the two coefficients coincide.  For fixed b, Re Ng(a + bI) etc. are     *)
(* polynomials of degree 12 in a over Fq: interpolated from 13 values and  *)
(* solved with PolyFq.                                                     *)
(***************************************************************************)
NgOf(t) ==
  LET g == "G2"  z == SwuZ(g)
      sv == KMul(g, z, KSqr(g, t))
      nd == KAdd(g, KSqr(g, sv), sv)
      n1 == KMul(g, EpB(g), KAdd(g, nd, KOne(g)))
      d1 == KNeg(g, KMul(g, EpA(g), nd))
  IN KAdd(g, KAdd(g, KMul(g, KSqr(g, n1), n1), KMul(g, EpA(g), KMul(g, n1, KSqr(g, d1)))),
          KMul(g, EpB(g), KMul(g, KSqr(g, d1), d1)))
(* which = 0: Re, 1: Re - Im, 2: Re + Im *)
CompOf(v, which) == CASE which = 0 -> v[1] [] which = 1 -> FqSub(v[1], v[2]) [] which = 2 -> FqAdd(v[1], v[2])
RECURSIVE LagBasis(_,_,_)
LagBasis(j, m, n) == \* prod_{m # j} (x - m) / (j - m), nodes 0..n
  IF m > n THEN <<One>>
  ELSE IF m = j THEN LagBasis(j, m + 1, n)
  ELSE PMul(PScale(<<FqNeg(FromInt(m)), One>>, FqInv(FqSub(FromInt(j), FromInt(m)))), LagBasis(j, m + 1, n))
RECURSIVE LagSum(_,_,_,_)
LagSum(b, which, j, n) ==
  IF j > n THEN <<>>
  ELSE PAdd(PScale(LagBasis(j, 0, n), CompOf(NgOf(<<FromInt(j), b>>), which)), LagSum(b, which, j + 1, n))
CompPoly(b, which) == LagSum(b, which, 0, 12)
SpecialTs(b, which) == LET rs == RootsOf(DistinctRootPart(CompPoly(b, which)), 1) IN
                       [i \in 1..Len(rs) |-> <<rs[i], b>>]
DiagTs == SpecialTs(<<3>>, 0) \o SpecialTs(<<3>>, 1) \o SpecialTs(<<4>>, 2) \o SpecialTs(<<7>>, 0)
ASSUME PrintT(<<"inputs with a vanishing / coinciding component of Ng", Len(DiagTs)>>)
ASSUME \A i \in 1..Len(DiagTs) : LET v == NgOf(DiagTs[i]) IN v[1] = Zero \/ v[1] = v[2] \/ v[1] = FqNeg(v[2])
DiagOps == [i \in 1..Len(DiagTs) |-> [op |-> "swu", g |-> "G2", t |-> DiagTs[i], cls |-> "intermediate-on-axis-or-diagonal"]]


RECURSIVE WriteChunks(_,_,_,_)
WriteChunks(name, s, n, k) ==
  IF Len(s) = 0 THEN TRUE
  ELSE LET m == IF Len(s) < n THEN Len(s) ELSE n IN
       /\ ndJsonSerialize(OutDir \o "/" \o name \o "-" \o ToString(k) \o ".script.ndjson", SubSeq(s, 1, m))
       /\ WriteChunks(name, SubSeq(s, m + 1, Len(s)), n, k + 1)
ASSUME WriteChunks("swu-g2-diag", DiagOps, 12, 100)
=============================================================================
