SPECIFICATION Spec
INVARIANTS FirstFailureWins AcceptIff UncheckedRelation AcceptedIsValid
CHECK_DEADLOCK FALSE
