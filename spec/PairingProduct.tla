---------------------------- MODULE PairingProduct ----------------------------
(***************************************************************************)
(* Products of pairings (C11) over LABELS: a pool of prepared G1 elements  *)
(* [a]g1 and G2 elements [b]g2 (a, b small integers, 0 = identity); a      *)
(* Miller loop over a list of pool indices followed by the final           *)
(* exponentiation has the abstract value  sum a_i b_i  (the exponent of    *)
(* e(g1,g2), an integer modulo r).  Prepared elements are immutable: any   *)
(* number of evaluations, in any order, over any sub-lists, see the same   *)
(* pool.  The machine explores all evaluation histories over a small pool; *)
(* JPairing!JudgePairl is the same statement on concrete points            *)
(* (value = e(g1,g2)^(sum a_i b_i), computed with the textbook pairing).   *)
(***************************************************************************)
EXTENDS Integers, Sequences
CONSTANTS As, Bs, MaxLen, MaxEvals

VARIABLES pool1, pool2, evals
vars == <<pool1, pool2, evals>>

Init == /\ pool1 \in [1..2 -> As] /\ pool2 \in [1..2 -> Bs]
        /\ evals = <<>>

RECURSIVE Value(_,_,_,_)
Value(p1, p2, l, i) == IF i > Len(l) THEN 0 ELSE p1[l[i][1]] * p2[l[i][2]] + Value(p1, p2, l, i + 1)
(* what an implementation that SKIPS identity pairs computes: the same, because they contribute 0 *)
RECURSIVE ValueSkipping(_,_,_,_)
ValueSkipping(p1, p2, l, i) ==
  IF i > Len(l) THEN 0
  ELSE (IF p1[l[i][1]] = 0 \/ p2[l[i][2]] = 0 THEN 0 ELSE p1[l[i][1]] * p2[l[i][2]])
       + ValueSkipping(p1, p2, l, i + 1)

Lists == UNION {[1..n -> (1..2) \X (1..2)] : n \in 0..MaxLen}
Evaluate(l) == /\ Len(evals) < MaxEvals
               /\ evals' = Append(evals, [list |-> l, value |-> ValueSkipping(pool1, pool2, l, 1)])
               /\ UNCHANGED <<pool1, pool2>>
Next == \E l \in Lists : Evaluate(l)
Spec == Init /\ [][Next]_vars

(* every evaluation equals the product of the individual pairings, whatever was evaluated before *)
ProductOfPairs == \A k \in 1..Len(evals) : evals[k].value = Value(pool1, pool2, evals[k].list, 1)
(* the same list evaluated twice gives the same value (reuse of prepared elements) *)
Reusable == \A j, k \in 1..Len(evals) : evals[j].list = evals[k].list => evals[j].value = evals[k].value
(* concatenation is multiplication *)
Multiplicative == \A j, k \in 1..Len(evals) :
   Value(pool1, pool2, evals[j].list \o evals[k].list, 1) = evals[j].value + evals[k].value
=============================================================================
