------------------------------ MODULE Gen_Rep ------------------------------
(***************************************************************************)
(* Script generation (spec -> impl): Jacobian REPRESENTATIVES of one point *)
(* with a prescribed coordinate.  (X, Y, Z) = (l^2 x, l^3 y, l) can be     *)
(* given any Z; a prescribed Y = c needs l = cbrt(c / y), a prescribed     *)
(* X = c needs l = sqrt(c / x), and the relations X = Z, Y = Z, X = Y fix  *)
(* l = 1/x, sqrt(1/y), x/y.  Formulas that test or reuse a coordinate, or  *)
(* a relation between the coordinates of two operands (Z1^2 = Z2^2 after a *)
(* doubling of a representative with Y = -1/2, say), are exercised only by *)
(* such representatives; no arithmetic of the library produces them.       *)
(* Each representative is sent through cofactor clearing (C17), a short    *)
(* register program (C01), the isogeny (points of the isogenous curves,    *)
(* C16), scalar multiplication (C02) and encoding (C05).                   *)
(***************************************************************************)
EXTENDS JMap, CubeRoot, Json, IOUtils, SequencesExt
OutDir == IOEnv.OUT
Thorough == IOEnv.VERIF_TIER = "thorough"

KInv(g, a) == IF g = "G1" THEN FqInv(a) ELSE F2Inv(a)
KOfInt(g, n) == IF g = "G1" THEN FqInt(n) ELSE <<FqInt(n), Zero>>
KHalf(g) == KInv(g, KOfInt(g, 2))
KSqrtOpt(g, a) == GSqrt(g, a)                     \* <<exists, root>>
KCbrt(g, a) == IF g = "G1" THEN Cbrt1(a) ELSE Cbrt2(a)
GCoefB(g) == IF g = "G1" THEN Four ELSE <<Four, Four>>
SixthRoot(g, a) == LET c == KCbrt(g, a) IN IF ~c[1] THEN <<FALSE, KZero(g)>> ELSE KSqrtOpt(g, c[2])
Rep(g, P, l) == LET l2 == KSqr(g, l) IN <<KMul(g, P[1], l2), KMul(g, P[2], KMul(g, l2, l)), l>>

(* <<name, <<exists, l>>>> for every target *)
Targets(g, P) ==
  LET x == P[1]  y == P[2]
      one == KOne(g)  m1 == KNeg(g, one)  h == KHalf(g)
  IN << <<"Y=-1/2", KCbrt(g, KMul(g, KNeg(g, h), KInv(g, y)))>>,
        <<"Y=1/2",  KCbrt(g, KMul(g, h, KInv(g, y)))>>,
        <<"Y=1",    KCbrt(g, KInv(g, y))>>,
        <<"Y=-1",   KCbrt(g, KMul(g, m1, KInv(g, y)))>>,
        <<"X=1",    KSqrtOpt(g, KInv(g, x))>>,
        <<"X=-1",   KSqrtOpt(g, KMul(g, m1, KInv(g, x)))>>,
        <<"X=Z",    <<TRUE, KInv(g, x)>> >>,
        <<"Y=Z",    KSqrtOpt(g, KInv(g, y))>>,
        <<"X=Y",    <<TRUE, KMul(g, x, KInv(g, y))>> >>,
        \* the doubling formula gives X([2]P) = l^8 (9x^4 - 8xy^2): equal to X(P) = l^2 x for l^6 = 1/(x^3 - 8b)
        <<"X(2P)=X(P)", SixthRoot(g, KInv(g, KSub(g, KMul(g, KSqr(g, x), x), KMul(g, KOfInt(g, 8), GCoefB(g)))))>>,
        <<"Z=-1",   <<TRUE, m1>> >>,
        <<"Z=2",    <<TRUE, KOfInt(g, 2)>> >> >>
RepsOf(g, P) == LET ts == TLCEval(Targets(g, P)) IN
  FlattenSeq([i \in 1..Len(ts) |-> IF ts[i][2][1] /\ ts[i][2][2] # KZero(g) THEN << <<ts[i][1], Rep(g, P, ts[i][2][2])>> >> ELSE <<>>])

(* points: subgroup points [k]g, and curve points outside the subgroup (first abscissae 1, 2, ... with a point) *)
RECURSIVE FullPt(_,_)
FullPt(g, n) == LET x == KOfInt(g, n)  s == KSqrtOpt(g, GRhs(g, x)) IN IF s[1] THEN <<x, s[2]>> ELSE FullPt(g, n + 1)
Pts(g) == << GMul(g, GGen(g), <<1>>), GMul(g, GGen(g), <<2>>), GMul(g, GGen(g), <<5>>), FullPt(g, 1), FullPt(g, 7) >>
NPts == IF Thorough THEN 5 ELSE 3
AllRepsOf(g) == FlattenSeq([i \in 1..NPts |-> LET P == (IF i = 3 /\ ~Thorough THEN Pts(g)[4] ELSE Pts(g)[i])
                                                 rs == TLCEval(RepsOf(g, P))
                                             IN [k \in 1..Len(rs) |-> <<rs[k][1], rs[k][2], P>>]])
(* the sixth-root target exists for one point in six: search the multiples of the generator for it *)
RECURSIVE SixthReps(_,_,_,_)
SixthReps(g, k, n, fuel) ==
  IF n = 0 \/ fuel = 0 THEN <<>>
  ELSE LET P == GMul(g, GGen(g), FromInt(k))
           x == P[1]
           s == SixthRoot(g, KInv(g, KSub(g, KMul(g, KSqr(g, x), x), KMul(g, KOfInt(g, 8), GCoefB(g)))))
       IN IF s[1] /\ s[2] # KZero(g)
          THEN << <<"X(2P)=X(P)", Rep(g, P, s[2]), P>> >> \o SixthReps(g, k + 1, n - 1, fuel - 1)
          ELSE SixthReps(g, k + 1, n, fuel - 1)
(* zero-arity: evaluated once *)
Reps1 == TLCEval(AllRepsOf("G1") \o SixthReps("G1", 3, 2, 30))
Reps2 == TLCEval(AllRepsOf("G2") \o SixthReps("G2", 3, 1, 30))
AllReps(g) == IF g = "G1" THEN Reps1 ELSE Reps2
ASSUME \A g \in {"G1", "G2"} : \A i \in 1..Len(AllReps(g)) : GRep(g, AllReps(g)[i][2], AllReps(g)[i][3])

ClearOps(g) == LET rs == AllReps(g) IN [i \in 1..Len(rs) |-> [op |-> "clearh", g |-> g, p |-> rs[i][2], cls |-> "representative-" \o rs[i][1]]]
ProgOps(g) == LET rs == AllReps(g) IN FlattenSeq([i \in 1..Len(rs) |-> LET c == "representative-" \o rs[i][1]  v == rs[i][2] IN
  << [op |-> "cm", g |-> g, fn |-> "reset"],
     [op |-> "cm", g |-> g, fn |-> "load", d |-> 0, v |-> v, cls |-> c],
     [op |-> "cm", g |-> g, fn |-> "copy", d |-> 1, s |-> 0, cls |-> c],
     [op |-> "cm", g |-> g, fn |-> "double", d |-> 1, s |-> 1, cls |-> c],
     [op |-> "cm", g |-> g, fn |-> "copy", d |-> 2, s |-> 1, cls |-> c],
     [op |-> "cm", g |-> g, fn |-> "add", d |-> 2, s |-> 0, cls |-> c],
     [op |-> "cm", g |-> g, fn |-> "sub", d |-> 1, s |-> 0, cls |-> c],
     [op |-> "cm", g |-> g, fn |-> "eq", d |-> 1, s |-> 0, cls |-> c],
     [op |-> "cm", g |-> g, fn |-> "add", d |-> 0, s |-> 1, cls |-> c],
     [op |-> "cm", g |-> g, fn |-> "into_affine", d |-> 0, s |-> 0, cls |-> c],
     [op |-> "cm", g |-> g, fn |-> "add_mixed", d |-> 2, s |-> 0, cls |-> c],
     [op |-> "cm", g |-> g, fn |-> "negate", d |-> 2, s |-> 2, cls |-> c],
     [op |-> "cm", g |-> g, fn |-> "add", d |-> 2, s |-> 2, cls |-> c] >>])
EncOps(g) == LET rs == AllReps(g) IN [i \in 1..Len(rs) |-> [op |-> "encode", g |-> g, pj |-> rs[i][2], cls |-> "representative-" \o rs[i][1]]]

(* the same for points of the isogenous curves (images of the SWU map) *)
IsoPts(g) == << SSWU(g, IF g = "G1" THEN FqPow(<<7>>, <<311>>) ELSE <<FqPow(<<7>>, <<312>>), FqPow(<<5>>, <<313>>)>>),
                SSWU(g, IF g = "G1" THEN FqPow(<<7>>, <<411>>) ELSE <<FqPow(<<7>>, <<412>>), FqPow(<<5>>, <<413>>)>>) >>
IsoRepsOf(g) == FlattenSeq([i \in 1..2 |-> TLCEval(RepsOf(g, IsoPts(g)[i]))])
IsoReps1 == TLCEval(IsoRepsOf("G1"))
IsoReps2 == TLCEval(IsoRepsOf("G2"))
IsoReps(g) == IF g = "G1" THEN IsoReps1 ELSE IsoReps2
IsoOps(g) == LET rs == IsoReps(g) IN [i \in 1..Len(rs) |-> [op |-> "iso", g |-> g, p |-> rs[i][2], cls |-> "representative-" \o rs[i][1]]]

RECURSIVE WriteChunks(_,_,_,_)
WriteChunks(name, s, n, k) ==
  IF Len(s) = 0 THEN TRUE
  ELSE LET m == IF Len(s) < n THEN Len(s) ELSE n IN
       /\ ndJsonSerialize(OutDir \o "/" \o name \o "-" \o ToString(k) \o ".script.ndjson", SubSeq(s, 1, m))
       /\ WriteChunks(name, SubSeq(s, m + 1, Len(s)), n, k + 1)
ASSUME PrintT(<<"representatives", Len(AllReps("G1")), Len(AllReps("G2")), Len(IsoReps("G1")), Len(IsoReps("G2"))>>)
ASSUME WriteChunks("rep-clearh-g1", ClearOps("G1"), 10, 100)
ASSUME WriteChunks("rep-clearh-g2", ClearOps("G2"), 3, 100)
ASSUME WriteChunks("rep-prog-g1", ProgOps("G1"), 13 * 6, 100)
ASSUME WriteChunks("rep-prog-g2", ProgOps("G2"), 13 * 3, 100)
ASSUME WriteChunks("rep-enc-g1", EncOps("G1"), 20, 100)
ASSUME WriteChunks("rep-enc-g2", EncOps("G2"), 10, 100)
ASSUME WriteChunks("rep-iso-g1", IsoOps("G1"), 12, 100)
ASSUME WriteChunks("rep-iso-g2", IsoOps("G2"), 6, 100)
=============================================================================
