
