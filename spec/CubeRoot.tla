------------------------------ MODULE CubeRoot ------------------------------
(***************************************************************************)
(* Cube roots in Fq and Fq2.  9 || q - 1 and 9 || q^2 - 1, so a cube root  *)
(* of a cubic residue c is c^t (3t = 1 mod m, m = |F*| / 9) corrected by a *)
(* 9th root of unity.  <<TRUE, root>> or <<FALSE, 0>>.                     *)
(***************************************************************************)
EXTENDS Fields

Nine == <<9>>
M1 == Div(Sub(Q, One), Nine)
M2 == Div(Sub(Mul(Q, Q), One), Nine)
TOf(m) == IF Rem(Add(One, m), Three) = Zero THEN Div(Add(One, m), Three) ELSE Div(Add(One, Mul(Two, m)), Three)
(* a cubic non-residue and the element of order 9 it yields *)
RECURSIVE NonCube1(_)
NonCube1(n) == IF FqPow(n, Mul(Three, M1)) # One THEN n ELSE NonCube1(FqAdd(n, One))
Eta1 == FqPow(NonCube1(Two), M1)
RECURSIVE NonCube2(_)
NonCube2(n) == IF F2Pow(n, Mul(Three, M2)) # F2One THEN n ELSE NonCube2(F2Add(n, F2One))
Eta2 == F2Pow(NonCube2(<<One, One>>), M2)
RECURSIVE Fix1(_,_,_), Fix2(_,_,_)
Fix1(c, r, j) == IF FqMul(r, FqSqr(r)) = c THEN <<TRUE, r>> ELSE IF j = 9 THEN <<FALSE, Zero>> ELSE Fix1(c, FqMul(r, Eta1), j + 1)
Fix2(c, r, j) == IF F2Mul(r, F2Sqr(r)) = c THEN <<TRUE, r>> ELSE IF j = 9 THEN <<FALSE, F2Zero>> ELSE Fix2(c, F2Mul(r, Eta2), j + 1)
Cbrt1(c) == IF c = Zero THEN <<TRUE, Zero>> ELSE IF FqPow(c, Mul(Three, M1)) # One THEN <<FALSE, Zero>> ELSE Fix1(c, FqPow(c, TOf(M1)), 0)
Cbrt2(c) == IF c = F2Zero THEN <<TRUE, F2Zero>> ELSE IF F2Pow(c, Mul(Three, M2)) # F2One THEN <<FALSE, F2Zero>> ELSE Fix2(c, F2Pow(c, TOf(M2)), 0)

=============================================================================
