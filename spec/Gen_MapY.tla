------------------------------ MODULE Gen_MapY ------------------------------
(***************************************************************************)
(* Script generation (spec -> impl) for the G2 simplified SWU map: inputs  *)
(* t whose IMAGE (x, y) has a special ordinate - y purely imaginary (g(x)  *)
(* a non-residue of the base field) or y in the base field (g(x) a residue *)
(* of the base field).  The sign rule sgn0(y) = sgn0(t) reads Im y exactly *)
(* when Re y = 0, so a slip in how the sign of the ROOT is taken shows     *)
(* only on such images; they are never hit by random or hashed inputs.     *)
(*   x = X + k I with Im g(x) = 0: for fixed k, Im g(X + k I) is a         *)
(*   polynomial in X over Fq (interpolated; PolyFq finds its roots);       *)
(*   a preimage t of x under SWU has s = Z t^2 a root of s^2 + s - 1/c     *)
(*   (first candidate, c = -A'x/B' - 1) or of s^2 + (1-d) s + (1-d),       *)
(*   d = -A'x/B' (second candidate), solved in Fq2 with F2Sqrt.            *)
(* Every t is certified by evaluating the specification's map.             *)
(***************************************************************************)
EXTENDS JMap, PolyFq, Json, IOUtils, SequencesExt
OutDir == IOEnv.OUT
Thorough == IOEnv.VERIF_TIER = "thorough"

RECURSIVE LagBasis(_,_,_)
LagBasis(j, m, n) ==
  IF m > n THEN <<One>>
  ELSE IF m = j THEN LagBasis(j, m + 1, n)
  ELSE PMul(PScale(<<FqNeg(FromInt(m)), One>>, FqInv(FqSub(FromInt(j), FromInt(m)))), LagBasis(j, m + 1, n))
RECURSIVE LagSum(_,_,_,_)
LagSum(k, comp, j, n) ==
  IF j > n THEN <<>>
  ELSE PAdd(PScale(LagBasis(j, 0, n), EpRhs("G2", <<FromInt(j), k>>)[comp]), LagSum(k, comp, j + 1, n))
(* comp = 2: Im g(X + k I), comp = 1: Re g(X + k I), as polynomials in X (degree <= 3) *)
CompPoly(k, comp) == LagSum(k, comp, 0, 4)
XsFor(k, comp) == LET rs == RootsOf(DistinctRootPart(CompPoly(k, comp)), 1) IN [i \in 1..Len(rs) |-> <<rs[i], k>>]

F2Half == <<FqInv(Two), Zero>>
QuadRoots2(b, c) == \* roots of s^2 + b s + c over Fq2
  LET disc == F2Sub(F2Sqr(b), F2Mul(<<Four, Zero>>, c))  r == F2Sqrt(disc) IN
  IF ~r[1] THEN <<>>
  ELSE << F2Mul(F2Sub(r[2], b), F2Half), F2Mul(F2Sub(F2Neg(r[2]), b), F2Half) >>
SwuPre2(x) == \* inputs t with SSWU("G2", t) having abscissa x
  LET z == SwuZ("G2")
      d == F2Mul(F2Neg(E2pA), F2Mul(x, F2Inv(E2pB)))
      c == F2Sub(d, F2One)
      ss == (IF c = F2Zero THEN <<>> ELSE QuadRoots2(F2One, F2Neg(F2Inv(c))))
            \o QuadRoots2(F2Sub(F2One, d), F2Sub(F2One, d))
  IN FlattenSeq([i \in 1..Len(ss) |->
       LET w == F2Mul(ss[i], F2Inv(z))  r == F2Sqrt(w) IN
       IF ~r[1] \/ r[2] = F2Zero THEN <<>>
       ELSE SelectSeq(<<r[2], F2Neg(r[2])>>, LAMBDA t : SSWU("G2", t)[1] = x)])

Ks == IF Thorough THEN <<Zero, One, Two, <<3>>, <<5>>, <<8>>, <<17>>, FqPow(<<7>>, <<99>>)>> ELSE <<One, <<5>>, <<8>>, <<17>>>>
RealG == FlattenSeq([i \in 1..Len(Ks) |-> XsFor(Ks[i], 2)])      \* abscissae with g(x) in Fq
ASSUME \A i \in 1..Len(RealG) : EpRhs("G2", RealG[i])[2] = Zero
Ts == FlattenSeq([i \in 1..Len(RealG) |-> SwuPre2(RealG[i])])
ASSUME PrintT(<<"abscissae with g(x) in Fq", Len(RealG), "inputs", Len(Ts),
                "purely imaginary y", Cardinality({i \in 1..Len(Ts) : SSWU("G2", Ts[i])[2][1] = Zero})>>)
ASSUME \A i \in 1..Len(Ts) : LET P == SSWU("G2", Ts[i]) IN E2p!OnCurve(P) /\ (P[2][1] = Zero \/ P[2][2] = Zero)
ASSUME \E i \in 1..Len(Ts) : SSWU("G2", Ts[i])[2][1] = Zero
ASSUME \E i \in 1..Len(Ts) : SSWU("G2", Ts[i])[2][2] = Zero
Ops == FlattenSeq([i \in 1..Len(Ts) |->
         << [op |-> "swu", g |-> "G2", t |-> Ts[i],
             cls |-> IF SSWU("G2", Ts[i])[2][1] = Zero THEN "image-ordinate-purely-imaginary" ELSE "image-ordinate-in-base-field"] >>
         \o (IF i % 4 = 1 THEN << [op |-> "map", g |-> "G2", u |-> Ts[i], cls |-> "image-ordinate-special"] >> ELSE <<>>)])

RECURSIVE WriteChunks(_,_,_,_)
WriteChunks(name, s, n, k) ==
  IF Len(s) = 0 THEN TRUE
  ELSE LET m == IF Len(s) < n THEN Len(s) ELSE n IN
       /\ ndJsonSerialize(OutDir \o "/" \o name \o "-" \o ToString(k) \o ".script.ndjson", SubSeq(s, 1, m))
       /\ WriteChunks(name, SubSeq(s, m + 1, Len(s)), n, k + 1)
ASSUME WriteChunks("swu-g2-ordinate", Ops, 10, 100)
=============================================================================
