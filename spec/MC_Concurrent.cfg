SPECIFICATION Spec
CONSTANTS
  Threads = {1, 2, 3}
  Instances <- MCInstances
  Impure = FALSE
INVARIANTS Deterministic
CHECK_DEADLOCK FALSE
