------------------------------ MODULE Gen_C08 ------------------------------
(***************************************************************************)
(* Script generation for C08 (spec -> impl): field elements chosen by the  *)
(* shape of their INTERNAL (Montgomery) form rather than of their value.   *)
(* The library stores x as x * 2^(64 n) mod p in n 64-bit words; a routine *)
(* that walks those words (zero test, comparison, carry chain) can be      *)
(* wrong for exactly the elements whose stored words are sparse, and no    *)
(* catalogue of "round" VALUES contains them.  For every word position i   *)
(* (and pairs of positions) and several word contents k the element        *)
(*     x = k * 2^(64 i) * 2^(-64 n)  mod p                                 *)
(* is computed here, and each is sent through the unary and binary field   *)
(* operations against 0, 1, itself, its negation and another such element. *)
(* Fq elements of this kind are also used as coefficients of Fq2 elements. *)
(***************************************************************************)
EXTENDS Fields, Json, IOUtils, TLC, SequencesExt

Thorough == IOEnv.VERIF_TIER = "thorough"
OutDir == IOEnv.OUT

Contents == << One, Pow2(63), Sub(Pow2(64), One), Hex(<<\hdead, \hbeef, \hcafe, \hbabe>>), Two >>
NCont == IF Thorough THEN 5 ELSE 4

RInv(p, n) == InvMod(Rem(Pow2(64 * n), p), p)
(* the element whose stored form is m (m < p) *)
OfStored(p, n, m) == MulMod(m, RInv(p, n), p)

Singles(p, n) == FlattenSeq([i \in 1..n |-> [c \in 1..NCont |-> Mul(Contents[c], Pow2(64 * (i - 1)))]])
Doubles(p, n) == FlattenSeq([i \in 1..(n - 1) |-> [d \in 1..(n - i) |-> LET j == i + d IN
                    Add(Mul(Contents[1 + ((i + j) % NCont)], Pow2(64 * (i - 1))),
                        Mul(Contents[1 + ((i * j) % NCont)], Pow2(64 * (j - 1))))]])
(* all words but one *)
Holes(p, n) == [i \in 1..(n - 1) |-> Sub(Sub(Pow2(64 * (n - 1)), One), Mul(Sub(Pow2(64), One), Pow2(64 * (i - 1))))]
(* the boundary catalogue of VALUES, applied to the stored form: next to 0 and to the modulus, around *)
(* the middle, around every word boundary (a borrow / carry chain through the add-back of p runs the *)
(* whole width for stored forms like p - 1)                                                          *)
HalfP(p) == Div(Sub(p, One), Two)
Bounds(p, n) ==
  << One, Two, <<3>>, Sub(p, One), Sub(p, Two), Sub(p, <<3>>), HalfP(p), Add(HalfP(p), One), Sub(HalfP(p), One) >>
  \o FlattenSeq([k \in 1..(n - 1) |-> << Sub(Pow2(64 * k), One), Add(Pow2(64 * k), One), Sub(p, Pow2(64 * k)),
                                        Sub(Sub(p, Pow2(64 * k)), One), Add(Sub(p, Pow2(64 * k)), One) >>])
Stored(p, n) == SelectSeq(Singles(p, n) \o Doubles(p, n) \o Holes(p, n) \o Bounds(p, n), LAMBDA m : Lt(m, p))
Elems(p, n) == LET s == Stored(p, n) IN [i \in 1..Len(s) |-> OfStored(p, n, s[i])]

Un(f, fn, a) == [op |-> "fp", f |-> f, fn |-> fn, a |-> a, cls |-> "stored-sparse"]
Bin(f, fn, a, b) == [op |-> "fp", f |-> f, fn |-> fn, a |-> a, b |-> b, cls |-> "stored-sparse"]
UnFns == <<"is_zero", "inv", "neg", "dbl", "sqr", "into_repr", "sqrt", "legendre">>
BinFns == <<"add", "sub", "mul", "eq", "cmp">>

OpsFor(f, p, xs, i) ==
  LET x == xs[i]
      y == xs[1 + ((i * 5) % Len(xs))]
      z == xs[Len(xs) - ((i * 3) % 20)]                 \* one of the boundary elements
      others == <<Zero, One, x, FpNeg(p, x), y, z>>
  IN [k \in 1..Len(UnFns) |-> Un(f, UnFns[k], x)]
     \o FlattenSeq([o \in 1..Len(others) |-> FlattenSeq([k \in 1..Len(BinFns) |->
           <<Bin(f, BinFns[k], x, others[o]), Bin(f, BinFns[k], others[o], x)>>])])
     \o <<[op |-> "fp", f |-> f, fn |-> "pow", a |-> x, e |-> <<3>>, ew |-> 1, cls |-> "stored-sparse"],
          [op |-> "fp", f |-> f, fn |-> "from_repr", n |-> x, cls |-> "stored-sparse"]>>
Script(f, p, n) == LET xs == Elems(p, n) IN FlattenSeq([i \in 1..Len(xs) |-> OpsFor(f, p, xs, i)])

(* the same elements as coefficients of the quadratic extension *)
E1(fn, a) == [op |-> "ext", f |-> "Fq2", fn |-> fn, a |-> a, cls |-> "stored-sparse"]
E2(fn, a, b) == [op |-> "ext", f |-> "Fq2", fn |-> fn, a |-> a, b |-> b, cls |-> "stored-sparse"]
ExtFor(xs, i) ==
  LET x == xs[i]
      y == xs[1 + ((i * 3) % Len(xs))]
      as == << <<x, Zero>>, <<Zero, x>>, <<x, y>> >>
  IN FlattenSeq([k \in 1..3 |->
       << E1("is_zero", as[k]), E1("inv", as[k]), E1("neg", as[k]), E1("sqr", as[k]), E1("norm", as[k]),
          E2("mul", as[k], <<y, x>>), E2("add", as[k], F2Neg(as[k])), E2("eq", as[k], F2Zero),
          E2("eq", F2Zero, as[k]), E2("sub", as[k], as[k]) >>])
ExtScript == LET xs == Elems(Q, 6) IN
             FlattenSeq([i \in 1..Len(xs) |-> IF Thorough \/ i % 3 = 1 THEN ExtFor(xs, i) ELSE <<>>])

RECURSIVE WriteChunks(_,_,_,_)
WriteChunks(name, s, n, k) ==
  IF Len(s) = 0 THEN TRUE
  ELSE LET m == IF Len(s) < n THEN Len(s) ELSE n IN
       /\ ndJsonSerialize(OutDir \o "/" \o name \o "-" \o ToString(k) \o ".script.ndjson", SubSeq(s, 1, m))
       /\ WriteChunks(name, SubSeq(s, m + 1, Len(s)), n, k + 1)

ASSUME WriteChunks("c08-fq-stored", Script("Fq", Q, 6), 600, 100)
ASSUME WriteChunks("c08-fr-stored", Script("Fr", R, 4), 600, 100)
ASSUME WriteChunks("c08-fq2-stored", ExtScript, 300, 100)
=============================================================================
