------------------------------ MODULE Gen_C02 ------------------------------
(***************************************************************************)
(* Script generation for the context histories of C02 (spec -> impl): all  *)
(* sequences of two calls (thorough: also sampled sequences of three) over *)
(* the action alphabet of WnafMachine, with concrete bases and with        *)
(* scalars on both sides of every window-recommendation threshold,         *)
(* including 0 and 1.  Each history runs on ONE reused context (a "new"    *)
(* event separates histories); for both groups.                            *)
(***************************************************************************)
EXTENDS BLS, Json, IOUtils, TLC, SequencesExt

Thorough == IOEnv.VERIF_TIER = "thorough"
OutDir == IOEnv.OUT

Scal == << Zero, One, Sub(Pow2(33), One), Pow2(33), Sub(Pow2(129), One), Add(Pow2(129), <<5>>),
           Add(Pow2(254), <<77>>) >>
NScal == IF Thorough THEN 7 ELSE 6
Nums == << <<1>>, <<5000>> >>

J1(a) == LET P == E1!PMulInt(Gen1, a) IN <<P[1], P[2], One>>
J2(a) == LET P == E2!PMulInt(Gen2, a) IN <<P[1], P[2], F2One>>
BaseJ(g, a) == IF g = "G1" THEN J1(a) ELSE J2(a)

(* the alphabet: letter = <<kind, scalar index, base multiple, num index>> *)
Kinds == <<"base_scalars", "scalar_bases", "base_shared", "scalar_shared">>
Alphabet == FlattenSeq([kk \in 1..4 |-> FlattenSeq([s \in 1..NScal |->
               IF kk \in {1, 3} THEN [ni \in 1..2 |-> <<Kinds[kk], s, 1 + (s % 2), ni>>]
               ELSE << <<Kinds[kk], s, 1 + (s % 2), 1>> >> ])])

Op(g, a, pos) ==
  IF a[1] \in {"base_scalars", "base_shared"}
  THEN [op |-> "wn", g |-> g, fn |-> a[1], p |-> BaseJ(g, a[3] + pos), n |-> Nums[a[4]],
        ks |-> <<Scal[a[2]]>>, cls |-> "hist-" \o a[1]]
  ELSE [op |-> "wn", g |-> g, fn |-> a[1], k |-> Scal[a[2]], ps |-> <<BaseJ(g, a[3] + pos)>>,
        cls |-> "hist-" \o a[1]]
NewOp(g) == [op |-> "wn", g |-> g, fn |-> "new", cls |-> "hist-new"]

NA == Len(Alphabet)
Pairs(g, stride) ==
  FlattenSeq([i \in 1..NA |-> FlattenSeq([j \in 1..NA |->
     IF (i * NA + j) % stride = 0
     THEN <<NewOp(g), Op(g, Alphabet[i], 0), Op(g, Alphabet[j], 1)>> ELSE <<>> ])])
Triples(g, stride) ==
  FlattenSeq([i \in 1..NA |-> FlattenSeq([j \in 1..NA |-> FlattenSeq([k \in 1..NA |->
     IF (i * NA * NA + j * NA + k) % stride = 0
     THEN <<NewOp(g), Op(g, Alphabet[i], 0), Op(g, Alphabet[j], 1), Op(g, Alphabet[k], 2)>> ELSE <<>> ])])])

RECURSIVE WriteChunks(_,_,_,_)
WriteChunks(name, s, n, k) ==
  IF Len(s) = 0 THEN TRUE
  ELSE LET m == IF Len(s) < n THEN Len(s) ELSE n IN
       /\ ndJsonSerialize(OutDir \o "/" \o name \o "-" \o ToString(k) \o ".script.ndjson", SubSeq(s, 1, m))
       /\ WriteChunks(name, SubSeq(s, m + 1, Len(s)), n, k + 1)

ASSUME WriteChunks("c02-g1-hist2", Pairs("G1", 1), 3 * 40, 100)
ASSUME WriteChunks("c02-g2-hist2", Pairs("G2", IF Thorough THEN 1 ELSE 5), 3 * 12, 100)
ASSUME Thorough => WriteChunks("c02-g1-hist3", Triples("G1", 23), 4 * 40, 100)
=============================================================================
