
