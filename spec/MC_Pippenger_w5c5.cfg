SPECIFICATION Spec
CONSTANTS
  WORD = 5
  NW = 2
  C = 5
  N = 31
  PointChoices <- MCPoints2a
  Scalars <- MCScalars
INVARIANTS Correct DigitsAgree BucketsCleared Tiling ResInv TypeOK
CHECK_DEADLOCK FALSE
