SPECIFICATION Spec
CONSTANTS
  WORD = 3
  NW = 2
  C = 2
  N = 31
  PointChoices <- MCPoints3
  Scalars <- MCScalars
INVARIANTS Correct DigitsAgree BucketsCleared Tiling ResInv TypeOK
CHECK_DEADLOCK FALSE
