SPECIFICATION Spec
CONSTANTS
  As <- MCAs
  Bs <- MCBs
  MaxLen = 2
  MaxEvals = 2
INVARIANTS ProductOfPairs Reusable Multiplicative
CHECK_DEADLOCK FALSE
