------------------------------ MODULE SelfMath ------------------------------
(***************************************************************************)
(* Cross-check of the BigNat override: this module only PRINTS the value   *)
(* of every BigNat operator on a list of operands.  The driver runs it     *)
(* twice - with BigNat.class on the classpath (java.math.BigInteger) and   *)
(* without it (the TLA+ definitions of BigNat.tla, which are authoritative)*)
(* - and requires identical output.                                        *)
(***************************************************************************)
EXTENDS BigNat, TLC, IOUtils

A == Hex(<<\h1a01, \h11ea, \h397f, \he69a, \h4b1b, \ha7b6, \h434b, \hacd7>>)      \* 125 bits
B == Hex(<<\hffff, \hffff, \hffff, \hffff, \hffff>>)                              \* 2^80 - 1
C == Hex(<<\h0001, \h0000, \h0000, \h0000, \h0000>>)                              \* 2^64
M == Hex(<<\h73ed, \ha753, \h299d, \h7d48, \h3339, \hd808, \h09a1, \hd805>>)      \* 127-bit odd modulus
P61 == Hex(<<\h1fff, \hffff, \hffff, \hffff>>)                                    \* 2^61 - 1, prime
Ops == << Zero, One, Two, <<65535>>, <<0, 1>>, A, B, C, M, Sub(B, One), Add(C, One) >>

Thorough == "VERIF_TIER" \in DOMAIN IOEnv /\ IOEnv.VERIF_TIER = "thorough"
QQ == Hex(<<\h1a01, \h11ea, \h397f, \he69a, \h4b1b, \ha7b6, \h434b, \hacd7, \h6477, \h4b84, \hf385, \h12bf,
            \h6730, \hd2a0, \hf6b0, \hf624, \h1eab, \hfffe, \hb153, \hffff, \hb9fe, \hffff, \hffff, \haaab>>)
Big1 == Sub(QQ, <<12345>>)
Big2 == Sub(QQ, One)

Bin(i, j) == LET a == Ops[i] b == Ops[j] IN
  <<"bin", i, j, Add(a, b), Sub(a, b), Mul(a, b), Cmp(a, b),
    IF b = Zero THEN <<>> ELSE Div(a, b), IF b = Zero THEN <<>> ELSE Rem(a, b),
    AddMod(a, b, M), SubMod(Rem(a, M), Rem(b, M), M), MulMod(a, b, M)>>
Un(i) == LET a == Ops[i] IN
  <<"un", i, NumBits(a), Bit(a, 0), Bit(a, 15), Bit(a, 16), Bit(a, 64), Bit(a, 200),
    ShiftL(a, 0), ShiftL(a, 1), ShiftL(a, 16), ShiftL(a, 17), ShiftR(a, 0), ShiftR(a, 1), ShiftR(a, 16),
    ShiftR(a, 63), ShiftR(a, 64), ShiftR(a, 200), LowBits(a, 0), LowBits(a, 1), LowBits(a, 16), LowBits(a, 33),
    LowBits(a, 300), ToBytesBE(a, 20), FromBytesBE(ToBytesBE(a, 20)), Hex(a), Dec(<<1, 2, 3, 4, 5, 6, 7, 8, 9, 0, 9>>),
    PowMod(a, <<13>>, M), PowMod(a, Zero, M), PowMod(a, <<\h0101>>, P61),
    IF Thorough THEN PowMod(a, Ops[i], P61) ELSE <<>>, IF Thorough \/ i < 5 THEN InvMod(a, P61) ELSE <<>> >>
ASSUME \A i \in 1..Len(Ops) : PrintT(Un(i))
ASSUME \A i \in 1..Len(Ops) : \A j \in 1..Len(Ops) : (Thorough \/ (i + 2 * j) % 5 = 0) => PrintT(Bin(i, j))
ASSUME PrintT(<<"pow2", Pow2(0), Pow2(15), Pow2(16), Pow2(64), Pow2(255)>>)
ASSUME PrintT(<<"big1", MulMod(Big1, Big2, QQ), AddMod(Big1, Big2, QQ), SubMod(Big1, Big2, QQ)>>)
ASSUME Thorough => PrintT(<<"big", MulMod(Big1, Big2, QQ), AddMod(Big1, Big2, QQ), SubMod(Big1, Big2, QQ), Mul(Big1, Big2),
                Rem(Mul(Big1, Big1), QQ), Div(Mul(Big1, Big2), QQ)>>)
ASSUME Thorough => PrintT(<<"bigpow", PowMod(Big1, <<\hbeef>>, QQ), InvMod(<<7>>, P61), PowMod(Big2, <<1, 1>>, QQ)>>)
=============================================================================
