------------------------------- MODULE MC_Wnaf -------------------------------
EXTENDS WnafMachine
(* window recommendations shaped like the library's: thresholds on the bit length / count *)
MCWinForScalar(k) == IF k >= 64 THEN 4 ELSE IF k >= 8 THEN 3 ELSE 2
MCWinForNum(n) == IF n > 20 THEN 8 ELSE IF n > 3 THEN 6 ELSE IF n > 1 THEN 5 ELSE 4
Bounded == depth <= 3
=============================================================================
