------------------------------- MODULE MC_Hash -------------------------------
(***************************************************************************)
(* Anchors of the interpreted hash tier: FIPS 180-4 SHA-256 / SHA-224 in   *)
(* TLA+ (module Sha256) against the standard's example digests, the closed *)
(* expand_message_xmd against the published RFC 9380 K.1 vectors, and the  *)
(* closed hash_to_curve (hash_to_field, SSWU, isogeny, cofactor clearing   *)
(* all from the specification) against the published RFC 9380 J.9.1 /      *)
(* J.10.1 points.  None of these values comes from the code under test.    *)
(* One TLC state per task, as in MC_Math.                                  *)
(***************************************************************************)
EXTENDS JHash, TLC, IOUtils

VARIABLE task
NTasks == 9
Env(name, dflt) == IF name \in DOMAIN IOEnv THEN atoi(IOEnv[name]) ELSE dflt
Init == task \in {t \in Env("MATH_LO", 1)..Env("MATH_HI", NTasks) : t % Env("MATH_SHARDS", 1) = Env("MATH_SHARD", 0)}
Next == UNCHANGED task

Abc == <<97, 98, 99>>
M56 == <<97, 98, 99, 100, 98, 99, 100, 101, 99, 100, 101, 102, 100, 101, 102, 103, 101, 102, 103, 104, 102, 103, 104, 105, 103, 104, 105, 106, 104, 105, 106, 107, 105, 106, 107, 108, 106, 107, 108, 109, 107, 108, 109, 110, 108, 109, 110, 111, 109, 110, 111, 112, 110, 111, 112, 113>>
ExpDst == <<81, 85, 85, 88, 45, 86, 48, 49, 45, 67, 83, 48, 50, 45, 119, 105, 116, 104, 45, 101, 120, 112, 97, 110, 100, 101, 114, 45, 83, 72, 65, 50, 53, 54, 45, 49, 50, 56>>
G1Dst == <<81, 85, 85, 88, 45, 86, 48, 49, 45, 67, 83, 48, 50, 45, 119, 105, 116, 104, 45, 66, 76, 83, 49, 50, 51, 56, 49, 71, 49, 95, 88, 77, 68, 58, 83, 72, 65, 45, 50, 53, 54, 95, 83, 83, 87, 85, 95, 82, 79, 95>>
G2Dst == <<81, 85, 85, 88, 45, 86, 48, 49, 45, 67, 83, 48, 50, 45, 119, 105, 116, 104, 45, 66, 76, 83, 49, 50, 51, 56, 49, 71, 50, 95, 88, 77, 68, 58, 83, 72, 65, 45, 50, 53, 54, 95, 83, 83, 87, 85, 95, 82, 79, 95>>

ShaKat(d) ==
  /\ SHA256(Abc) = <<186, 120, 22, 191, 143, 1, 207, 234, 65, 65, 64, 222, 93, 174, 34, 35, 176, 3, 97, 163, 150, 23, 122, 156, 180, 16, 255, 97, 242, 0, 21, 173>>
  /\ SHA256(<<>>) = <<227, 176, 196, 66, 152, 252, 28, 20, 154, 251, 244, 200, 153, 111, 185, 36, 39, 174, 65, 228, 100, 155, 147, 76, 164, 149, 153, 27, 120, 82, 184, 85>>
  /\ SHA256(M56) = <<36, 141, 106, 97, 210, 6, 56, 184, 229, 192, 38, 147, 12, 62, 96, 57, 163, 60, 228, 89, 100, 255, 33, 103, 246, 236, 237, 212, 25, 219, 6, 193>>
  /\ SHA224(Abc) = <<35, 9, 125, 34, 52, 5, 216, 34, 134, 66, 164, 119, 189, 162, 85, 179, 42, 173, 188, 228, 189, 160, 179, 247, 227, 108, 157, 167>>
  /\ SHA224(M56) = <<117, 56, 139, 22, 81, 39, 118, 204, 93, 186, 93, 161, 253, 137, 1, 80, 176, 198, 69, 92, 180, 245, 139, 25, 82, 82, 37, 37>>
(* lengths around the padding boundary: the digest has the right size and differs from its neighbours *)
ShaPad(d) == \A n \in {54, 55, 56, 57, 63, 64, 65, 119, 120} :
               LET m == [i \in 1..n |-> 97] IN
               Len(Pad(m)) % 64 = 0 /\ Len(Pad(m)) - n >= 9 /\ Len(Pad(m)) - n <= 72

Xmd1(d) == XmdClosed("xmd-sha256", <<>>, ExpDst, 32) = <<104, 169, 133, 184, 126, 182, 180, 105, 82, 18, 137, 17, 242, 164, 65, 43, 188, 48, 42, 157, 117, 150, 103, 248, 127, 122, 33, 216, 3, 240, 114, 53>>
Xmd2(d) == XmdClosed("xmd-sha256", Abc, ExpDst, 32) = <<216, 204, 171, 35, 181, 152, 92, 206, 168, 101, 198, 201, 123, 110, 91, 131, 80, 231, 148, 230, 3, 180, 185, 121, 2, 245, 58, 138, 13, 96, 86, 21>>
Xmd3(d) == XmdClosed("xmd-sha256", <<>>, ExpDst, 128) = <<175, 132, 194, 124, 207, 212, 93, 65, 145, 79, 223, 245, 223, 37, 41, 62, 34, 26, 252, 83, 216, 173, 42, 192, 109, 94, 62, 41, 72, 93, 173, 190, 224, 209, 33, 88, 119, 19, 163, 224, 221, 77, 94, 105, 233, 62, 183, 205, 79, 93, 244, 205, 16, 62, 24, 140, 246, 12, 176, 46, 220, 62, 223, 24, 237, 168, 87, 108, 65, 43, 24, 255, 182, 88, 227, 221, 110, 200, 73, 70, 155, 151, 157, 68, 76, 247, 178, 105, 17, 160, 142, 99, 207, 49, 249, 220, 197, 65, 112, 141, 52, 145, 24, 68, 114, 194, 194, 155, 183, 73, 212, 40, 107, 0, 76, 235, 94, 230, 185, 167, 250, 91, 100, 108, 153, 63, 12, 237>>

(* RFC 9380 J.9.1, msg = "" *)
H2cG1(d) == H2cClosed("xmd-sha256", "G1", "ro", <<>>, G1Dst) =
  << Hex(<<\h0529, \h26ad, \hd220, \h7b76, \hca4f, \ha57a, \h8734, \h416c, \h8dc9, \h5e24, \h5017, \h72c8, \h1427, \h8700, \heed6, \hd1e4, \he8cf, \h62d9, \hc09d, \hb0fa, \hc349, \h612b, \h759e, \h79a1>>),
     Hex(<<\h08ba, \h7384, \h53bf, \hed09, \hcb54, \h6dbb, \h0783, \hdbb3, \ha5f1, \hf566, \hed67, \hbb6b, \he0e8, \hc67e, \h2e81, \ha4cc, \h68ee, \h2981, \h3bb7, \h9949, \h98f3, \heae0, \hc9c6, \ha265>>) >>
(* RFC 9380 J.10.1, msg = "" *)
H2cG2(d) == H2cClosed("xmd-sha256", "G2", "ro", <<>>, G2Dst) =
  << << Hex(<<\h0141, \hebfb, \hdca4, \h0eb8, \h5b87, \h142e, \h130a, \hb689, \hc673, \hcf60, \hf1a3, \he98d, \h6933, \h5266, \hf30d, \h9b8d, \h4ac4, \h4c10, \h38e9, \hdcdd, \h5393, \hfaf5, \hc41f, \hb78a>>),
        Hex(<<\h05cb, \h8437, \h535e, \h20ec, \hffae, \hf775, \h2bad, \hdf98, \h0341, \h39c3, \h8452, \h458b, \haeef, \hab37, \h9ba1, \h3dff, \h5bf5, \hdd71, \hb724, \h1871, \h7047, \hf5b0, \hf37d, \ha03d>>) >>,
     << Hex(<<\h0503, \h921d, \h7f6a, \h1280, \h5e72, \h940b, \h963c, \h0cf3, \h471c, \h7b2a, \h5249, \h50ca, \h195d, \h1106, \h2ee7, \h5ec0, \h76da, \hf2d4, \hbc35, \h8c4b, \h190c, \h0c98, \h064f, \hdd92>>),
        Hex(<<\h1242, \h4ac3, \h2561, \h493f, \h3fe3, \hc260, \h708a, \h12b7, \hc620, \he7be, \h0009, \h9a97, \h4e25, \h9ddc, \h7d1f, \h6395, \hc3c8, \h11cd, \hd19f, \h1e8d, \hbf3e, \h9ecf, \hdcba, \hb8d6>>) >> >>
(* the closed form and the graph form agree: the graph of the closed evaluation is accepted *)
Closed2Graph(d) ==
  LET dstp == ExpDst \o I2OSP1(Len(ExpDst))
      mp == ZeroBytes(64) \o Abc \o I2OSP2(40) \o I2OSP1(0) \o dstp
      b0 == SHA256(mp)
      b1 == SHA256(b0 \o I2OSP1(1) \o dstp)
      b2 == SHA256(StrXor(b0, b1) \o I2OSP1(2) \o dstp)
      H == << <<mp, b0>>, <<b0 \o I2OSP1(1) \o dstp, b1>>, <<StrXor(b0, b1) \o I2OSP1(2) \o dstp, b2>> >>
  IN /\ GraphIsHash("xmd-sha256", H)
     /\ XmdOut("xmd-sha256", H, Abc, ExpDst, 40) = <<TRUE, XmdClosed("xmd-sha256", Abc, ExpDst, 40)>>
     /\ ~GraphIsHash("xmd-sha256", << <<mp, b1>> >>)

TaskOK ==
  CASE task = 1 -> ShaKat(task)
    [] task = 2 -> ShaPad(task)
    [] task = 3 -> Xmd1(task)
    [] task = 4 -> Xmd2(task)
    [] task = 5 -> Xmd3(task)
    [] task = 6 -> Closed2Graph(task)
    [] task = 7 -> H2cG1(task)
    [] task = 8 -> H2cG2(task)
    [] task = 9 -> TRUE
=============================================================================
