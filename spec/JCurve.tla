------------------------------- MODULE JCurve -------------------------------
(***************************************************************************)
(* The register machine of C01 (CurveMachine) over the mathematics of      *)
(* Curve/BLS: the abstract state maps every projective and affine register *)
(* of a group to an affine point of the curve (or O); every action is one  *)
(* public API call, its post-state computed with the textbook group law,   *)
(* and its logged raw result must represent the post-state.                *)
(***************************************************************************)
EXTENDS BLS

NREG == 8
InitRegs == [p |-> [i \in 0..(NREG-1) |-> <<>>], a |-> [i \in 0..(NREG-1) |-> <<>>]]

(* group dispatch *)
GAdd(g, P, S) == IF g = "G1" THEN E1!PAdd(P, S) ELSE E2!PAdd(P, S)
GDbl(g, P)    == IF g = "G1" THEN E1!PDbl(P) ELSE E2!PDbl(P)
GNeg(g, P)    == IF g = "G1" THEN E1!PNeg(P) ELSE E2!PNeg(P)
GSub(g, P, S) == GAdd(g, P, GNeg(g, S))
GMul(g, P, k) == IF g = "G1" THEN E1!PMul(P, k) ELSE E2!PMul(P, k)
GOnCurve(g, P) == IF g = "G1" THEN E1!OnCurve(P) ELSE E2!OnCurve(P)
GRep(g, J, P) == IF g = "G1" THEN E1!Represents(J, P) ELSE E2!Represents(J, P)
GOfJac(g, J)  == IF g = "G1" THEN E1!OfJac(J) ELSE E2!OfJac(J)
GFOne(g)  == IF g = "G1" THEN One ELSE F2One
GFZero(g) == IF g = "G1" THEN Zero ELSE F2Zero
GGen(g) == IF g = "G1" THEN Gen1 ELSE Gen2
GInSub(g, P) == IF g = "G1" THEN InG1(P) ELSE InG2(P)
(* raw affine record <<x, y, inf>> *)
OfAffRec(a) == IF a[3] THEN <<>> ELSE <<a[1], a[2]>>
AffRep(a, P) == OfAffRec(a) = P
(* the canonical affine identity of the library: (0, 1, infinity) *)
AffCanon(g, a) == a[3] => (a[1] = GFZero(g) /\ a[2] = GFOne(g))
IsNormalizedJ(g, J) == J[3] = GFZero(g) \/ J[3] = GFOne(g)

(***************************************************************************)
(* CmStep(g, regs, e) = <<accepted, regs'>> : one event of the machine.    *)
(***************************************************************************)
LOCAL SetP(regs, d, P) == [regs EXCEPT !.p[d] = P]
LOCAL SetA(regs, d, P) == [regs EXCEPT !.a[d] = P]

CmStep(g, regs, e) ==
  LET f == e.fn IN
  CASE f = "reset" -> <<TRUE, InitRegs>>
    [] f = "load" ->
         \* the script must load a representative of a curve point
         LET P == GOfJac(g, e.v) IN <<e.out = e.v /\ GOnCurve(g, P), SetP(regs, e.d, P)>>
    [] f = "load_aff" ->
         LET P == OfAffRec(e.v) IN <<e.out = e.v /\ GOnCurve(g, P), SetA(regs, e.d, P)>>
    [] f = "zero" -> <<GRep(g, e.out, <<>>), SetP(regs, e.d, <<>>)>>
    [] f = "one"  -> <<GRep(g, e.out, GGen(g)), SetP(regs, e.d, GGen(g))>>
    [] f = "zero_aff" -> <<AffRep(e.out, <<>>) /\ AffCanon(g, e.out), SetA(regs, e.d, <<>>)>>
    [] f = "one_aff"  -> <<AffRep(e.out, GGen(g)), SetA(regs, e.d, GGen(g))>>
    [] f = "rescale" -> <<GRep(g, e.out, regs.p[e.d]), regs>>
    [] f = "copy" -> <<GRep(g, e.out, regs.p[e.s]), SetP(regs, e.d, regs.p[e.s])>>
    [] f = "add" -> LET P == GAdd(g, regs.p[e.d], regs.p[e.s]) IN <<GRep(g, e.out, P), SetP(regs, e.d, P)>>
    [] f = "sub" -> LET P == GSub(g, regs.p[e.d], regs.p[e.s]) IN <<GRep(g, e.out, P), SetP(regs, e.d, P)>>
    [] f = "add_mixed" -> LET P == GAdd(g, regs.p[e.d], regs.a[e.s]) IN <<GRep(g, e.out, P), SetP(regs, e.d, P)>>
    [] f = "sub_mixed" -> LET P == GSub(g, regs.p[e.d], regs.a[e.s]) IN <<GRep(g, e.out, P), SetP(regs, e.d, P)>>
    [] f = "double" -> LET P == GDbl(g, regs.p[e.d]) IN <<GRep(g, e.out, P), SetP(regs, e.d, P)>>
    [] f = "negate" -> LET P == GNeg(g, regs.p[e.d]) IN <<GRep(g, e.out, P), SetP(regs, e.d, P)>>
    [] f = "negate_aff" -> LET P == GNeg(g, regs.a[e.d]) IN <<AffRep(e.out, P), SetA(regs, e.d, P)>>
    [] f = "into_affine" -> <<AffRep(e.out, regs.p[e.s]) /\ AffCanon(g, e.out), SetA(regs, e.d, regs.p[e.s])>>
    [] f = "into_projective" -> <<GRep(g, e.out, regs.a[e.s]), SetP(regs, e.d, regs.a[e.s])>>
    [] f = "eq" -> <<e.out = (regs.p[e.d] = regs.p[e.s]), regs>>
    [] f = "eq_aff" -> <<e.out = (regs.a[e.d] = regs.a[e.s]), regs>>
    [] f = "is_zero" -> <<e.out = (regs.p[e.d] = <<>>), regs>>
    [] f = "is_zero_aff" -> <<e.out = (regs.a[e.d] = <<>>), regs>>
    [] f = "is_normalized" -> <<TRUE, regs>>   \* representation query: judged in batch_normalization
    [] f = "batch_normalization" ->
         \* representations change (every entry normalized afterwards), points do not
         <<\A i \in 1..Len(e.regs) :
              /\ GRep(g, e.out[i][1], regs.p[e.regs[i]])
              /\ IsNormalizedJ(g, e.out[i][1])
              /\ e.out[i][2] = TRUE,
           regs>>
    [] f = "mul" -> LET P == GMul(g, regs.p[e.d], e.k) IN <<GRep(g, e.out, P), SetP(regs, e.d, P)>>
    [] f = "mul_aff" -> LET P == GMul(g, regs.a[e.s], e.k) IN <<GRep(g, e.out, P), SetP(regs, e.d, P)>>
=============================================================================
