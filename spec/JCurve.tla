------------------------------- MODULE JCurve -------------------------------
(***************************************************************************)
(* The register machine of C01 (CurveMachine) over the mathematics of      *)
(* Curve/BLS: the abstract state maps every projective and affine register *)
(* of a group to an affine point of the curve (or O); every action is one  *)
(* public API call, its post-state computed with the textbook group law,   *)
(* and its logged raw result must represent the post-state.                *)
(***************************************************************************)
EXTENDS BLS

NREG == 8
(* p, a: abstract points held by the projective / affine registers;                *)
(* r: the raw Jacobian triple last logged for each projective register (a shadow   *)
(* of the implementation's representation, needed only to judge is_normalized).    *)
InitRegs == [p |-> [i \in 0..(NREG-1) |-> <<>>], a |-> [i \in 0..(NREG-1) |-> <<>>],
             r |-> [i \in 0..(NREG-1) |-> <<>>]]

(* group dispatch *)
GAdd(g, P, S) == IF g = "G1" THEN E1!PAdd(P, S) ELSE E2!PAdd(P, S)
GDbl(g, P)    == IF g = "G1" THEN E1!PDbl(P) ELSE E2!PDbl(P)
GNeg(g, P)    == IF g = "G1" THEN E1!PNeg(P) ELSE E2!PNeg(P)
GSub(g, P, S) == GAdd(g, P, GNeg(g, S))
GMul(g, P, k) == IF g = "G1" THEN E1!PMul(P, k) ELSE E2!PMul(P, k)
GOnCurve(g, P) == IF g = "G1" THEN E1!OnCurve(P) ELSE E2!OnCurve(P)
GRep(g, J, P) == IF g = "G1" THEN E1!Represents(J, P) ELSE E2!Represents(J, P)
GOfJac(g, J)  == IF g = "G1" THEN E1!OfJac(J) ELSE E2!OfJac(J)
GFOne(g)  == IF g = "G1" THEN One ELSE F2One
GFZero(g) == IF g = "G1" THEN Zero ELSE F2Zero
GGen(g) == IF g = "G1" THEN Gen1 ELSE Gen2
GInSub(g, P) == IF g = "G1" THEN InG1(P) ELSE InG2(P)
(* raw affine record <<x, y, inf>> *)
OfAffRec(a) == IF a[3] THEN <<>> ELSE <<a[1], a[2]>>
AffRep(a, P) == OfAffRec(a) = P
(* the affine identity of the library is (0, 1, infinity); NOT demanded by any judge: whether two
   identities compare equal is observed through eq_aff events instead *)
AffCanon(g, a) == a[3] => (a[1] = GFZero(g) /\ a[2] = GFOne(g))
IsNormalizedJ(g, J) == J[3] = GFZero(g) \/ J[3] = GFOne(g)

(***************************************************************************)
(* CmStep(g, regs, e) = <<accepted, regs'>> : one event of the machine.    *)
(***************************************************************************)
LOCAL SetPJ(regs, d, P, J) == [regs EXCEPT !.p[d] = P, !.r[d] = J]
LOCAL SetA(regs, d, P) == [regs EXCEPT !.a[d] = P]

CmStep(g, regs, e) ==
  LET f == e.fn IN
  CASE f = "reset" -> <<TRUE, InitRegs>>
    [] f = "load" ->
         \* the script must load a representative of a curve point
         LET P == GOfJac(g, e.v) IN <<e.out = e.v /\ GOnCurve(g, P), SetPJ(regs, e.d, P, e.out)>>
    [] f = "load_aff" ->
         LET P == OfAffRec(e.v) IN <<e.out = e.v /\ GOnCurve(g, P), SetA(regs, e.d, P)>>
    [] f = "zero" -> <<GRep(g, e.out, <<>>), SetPJ(regs, e.d, <<>>, e.out)>>
    [] f = "one"  -> <<GRep(g, e.out, GGen(g)), SetPJ(regs, e.d, GGen(g), e.out)>>
    [] f = "zero_aff" -> <<AffRep(e.out, <<>>), SetA(regs, e.d, <<>>)>>
    [] f = "one_aff"  -> <<AffRep(e.out, GGen(g)), SetA(regs, e.d, GGen(g))>>
    [] f = "rescale" -> <<GRep(g, e.out, regs.p[e.d]), [regs EXCEPT !.r[e.d] = e.out]>>
    [] f = "copy" -> <<e.out = regs.r[e.s], SetPJ(regs, e.d, regs.p[e.s], e.out)>>
    [] f = "add" -> LET P == GAdd(g, regs.p[e.d], regs.p[e.s]) IN <<GRep(g, e.out, P), SetPJ(regs, e.d, P, e.out)>>
    [] f = "sub" -> LET P == GSub(g, regs.p[e.d], regs.p[e.s]) IN <<GRep(g, e.out, P), SetPJ(regs, e.d, P, e.out)>>
    [] f = "add_mixed" -> LET P == GAdd(g, regs.p[e.d], regs.a[e.s]) IN <<GRep(g, e.out, P), SetPJ(regs, e.d, P, e.out)>>
    [] f = "sub_mixed" -> LET P == GSub(g, regs.p[e.d], regs.a[e.s]) IN <<GRep(g, e.out, P), SetPJ(regs, e.d, P, e.out)>>
    [] f = "double" -> LET P == GDbl(g, regs.p[e.d]) IN <<GRep(g, e.out, P), SetPJ(regs, e.d, P, e.out)>>
    [] f = "negate" -> LET P == GNeg(g, regs.p[e.d]) IN <<GRep(g, e.out, P), SetPJ(regs, e.d, P, e.out)>>
    [] f = "negate_aff" -> LET P == GNeg(g, regs.a[e.d]) IN <<AffRep(e.out, P), SetA(regs, e.d, P)>>
    [] f = "into_affine" -> <<AffRep(e.out, regs.p[e.s]), SetA(regs, e.d, regs.p[e.s])>>
    [] f = "into_projective" -> <<GRep(g, e.out, regs.a[e.s]), SetPJ(regs, e.d, regs.a[e.s], e.out)>>
    [] f = "eq" -> <<e.out = (regs.p[e.d] = regs.p[e.s]), regs>>
    [] f = "eq_aff" -> <<e.out = (regs.a[e.d] = regs.a[e.s]), regs>>
    [] f = "is_zero" -> <<e.out = (regs.p[e.d] = <<>>), regs>>
    [] f = "is_zero_aff" -> <<e.out = (regs.a[e.d] = <<>>), regs>>
    [] f = "is_normalized" -> <<e.out = IsNormalizedJ(g, regs.r[e.d]), regs>>
    [] f = "batch_normalization" ->
         \* representations change (every entry normalized afterwards), points do not
         <<\A i \in 1..Len(e.regs) :
              /\ GRep(g, e.out[i][1], regs.p[e.regs[i]])
              /\ IsNormalizedJ(g, e.out[i][1])
              /\ e.out[i][2] = TRUE,
           [regs EXCEPT !.r = [k \in DOMAIN regs.r |->
               IF \E i \in 1..Len(e.regs) : e.regs[i] = k
               THEN e.out[CHOOSE i \in 1..Len(e.regs) : e.regs[i] = k][1] ELSE regs.r[k]]]>>
    [] f = "batch_long" ->
         <<\A i \in 1..Len(e.pattern) :
              /\ GRep(g, e.out[i][1], regs.p[e.pattern[i]])
              /\ IsNormalizedJ(g, e.out[i][1])
              /\ e.out[i][2] = TRUE,
           regs>>
    [] f = "mul" -> LET P == GMul(g, regs.p[e.d], e.k) IN <<GRep(g, e.out, P), SetPJ(regs, e.d, P, e.out)>>
    [] f = "mul_aff" -> LET P == GMul(g, regs.a[e.s], e.k) IN <<GRep(g, e.out, P), SetPJ(regs, e.d, P, e.out)>>
=============================================================================
