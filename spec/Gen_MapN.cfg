
