---- MODULE MC_Concurrent_TTrace_1790476136 ----
EXTENDS Sequences, TLCExt, Toolbox, MC_Concurrent, Naturals, TLC

_expression ==
    LET MC_Concurrent_TEExpression == INSTANCE MC_Concurrent_TEExpression
    IN MC_Concurrent_TEExpression!expression
----

_trace ==
    LET MC_Concurrent_TETrace == INSTANCE MC_Concurrent_TETrace
    IN MC_Concurrent_TETrace!trace
----

_inv ==
    ~(
        TLCGet("level") = Len(_TETrace)
        /\
        cache = (<<>>)
        /\
        hist = (<<>>)
        /\
        pc = (<<<<1, 1>>, "idle", "idle">>)
    )
----

_init ==
    /\ cache = _TETrace[1].cache
    /\ pc = _TETrace[1].pc
    /\ hist = _TETrace[1].hist
----

_next ==
    /\ \E i,j \in DOMAIN _TETrace:
        /\ \/ /\ j = i + 1
              /\ i = TLCGet("level")
        /\ cache  = _TETrace[i].cache
        /\ cache' = _TETrace[j].cache
        /\ pc  = _TETrace[i].pc
        /\ pc' = _TETrace[j].pc
        /\ hist  = _TETrace[i].hist
        /\ hist' = _TETrace[j].hist

\* Uncomment the ASSUME below to write the states of the error trace
\* to the given file in Json format. Note that you can pass any tuple
\* to `JsonSerialize`. For example, a sub-sequence of _TETrace.
    \* ASSUME
    \*     LET J == INSTANCE Json
    \*         IN J!JsonSerialize("MC_Concurrent_TTrace_1790476136.json", _TETrace)

=============================================================================

 Note that you can extract this module `MC_Concurrent_TEExpression`
  to a dedicated file to reuse `expression` (the module in the 
  dedicated `MC_Concurrent_TEExpression.tla` file takes precedence 
  over the module `MC_Concurrent_TEExpression` below).

---- MODULE MC_Concurrent_TEExpression ----
EXTENDS Sequences, TLCExt, Toolbox, MC_Concurrent, Naturals, TLC

expression == 
    [
        \* To hide variables of the `MC_Concurrent` spec from the error trace,
        \* remove the variables below.  The trace will be written in the order
        \* of the fields of this record.
        cache |-> cache
        ,pc |-> pc
        ,hist |-> hist
        
        \* Put additional constant-, state-, and action-level expressions here:
        \* ,_stateNumber |-> _TEPosition
        \* ,_cacheUnchanged |-> cache = cache'
        
        \* Format the `cache` variable as Json value.
        \* ,_cacheJson |->
        \*     LET J == INSTANCE Json
        \*     IN J!ToJson(cache)
        
        \* Lastly, you may build expressions over arbitrary sets of states by
        \* leveraging the _TETrace operator.  For example, this is how to
        \* count the number of times a spec variable changed up to the current
        \* state in the trace.
        \* ,_cacheModCount |->
        \*     LET F[s \in DOMAIN _TETrace] ==
        \*         IF s = 1 THEN 0
        \*         ELSE IF _TETrace[s].cache # _TETrace[s-1].cache
        \*             THEN 1 + F[s-1] ELSE F[s-1]
        \*     IN F[_TEPosition - 1]
    ]

=============================================================================



Parsing and semantic processing can take forever if the trace below is long.
 In this case, it is advised to uncomment the module below to deserialize the
 trace from a generated binary file.

\*
\*---- MODULE MC_Concurrent_TETrace ----
\*EXTENDS IOUtils, MC_Concurrent, TLC
\*
\*trace == IODeserialize("MC_Concurrent_TTrace_1790476136.bin", TRUE)
\*
\*=============================================================================
\*

---- MODULE MC_Concurrent_TETrace ----
EXTENDS MC_Concurrent, TLC

trace == 
    <<
    ([cache |-> <<>>,hist |-> <<>>,pc |-> <<"idle", "idle", "idle">>]),
    ([cache |-> <<>>,hist |-> <<>>,pc |-> <<<<1, 1>>, "idle", "idle">>])
    >>
----


=============================================================================

---- CONFIG MC_Concurrent_TTrace_1790476136 ----
CONSTANTS
    Threads = { 1 , 2 , 3 }
    Instances <- MCInstances
    Impure = FALSE

INVARIANT
    _inv

CHECK_DEADLOCK
    \* CHECK_DEADLOCK off because of PROPERTY or INVARIANT above.
    FALSE

INIT
    _init

NEXT
    _next

CONSTANT
    _TETrace <- _trace

ALIAS
    _expression
=============================================================================
\* Generated on Sun Sep 27 02:28:57 UTC 2026