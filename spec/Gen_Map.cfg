
