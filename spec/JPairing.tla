------------------------------- MODULE JPairing -------------------------------
(***************************************************************************)
(* The reduced optimal-ate pairing of BLS12-381, textbook style:           *)
(*   e(P, Q) = conj( f_{|x|,Q'}(P) ) ^ (3 (q^12 - 1) / r)                  *)
(* with Q' the image of Q in E(Fq12) under the untwisting map              *)
(* (x', y') -> (x'/w^2, y'/w^3).  Curve arithmetic is done on the twist    *)
(* (affine, over Fq2); the line through T with slope lam (slope on the     *)
(* twist) evaluated at P = (xP, yP), multiplied by w^3 (an element of the  *)
(* proper subfield Fq4, which the final exponentiation kills), is          *)
(*      (lam xT - yT)  +  (-lam xP) v  +  yP v w.                          *)
(* Products are the dense schoolbook products of Fields.tla; the final     *)
(* exponentiation is a plain power.  Nothing here resembles the code's     *)
(* projective line coefficients, sparse products or x-chains.              *)
(***************************************************************************)
EXTENDS JHash

(* the line value as an element of Fq12 *)
LineVal(lam, T, P) ==
  << << F2Sub(F2Mul(lam, T[1]), T[2]), F2Neg(F2MulFq(lam, P[1])), F2Zero >>,
     << F2Zero, <<P[2], Zero>>, F2Zero >> >>
TangentSlope(T) == F2Mul(F2Add(F2Dbl(F2Sqr(T[1])), F2Sqr(T[1])), F2Inv(F2Dbl(T[2])))
ChordSlope(T, S) == F2Mul(F2Sub(S[2], T[2]), F2Inv(F2Sub(S[1], T[1])))

(* one Miller iteration for bit b: returns <<f, T>> *)
MillerStep(f, T, S, P, b) ==
  LET f1 == TLCEval(F12Mul(F12Sqr(f), LineVal(TangentSlope(T), T, P)))
      T1 == TLCEval(E2!PDbl(T))
  IN IF b = 0 THEN <<f1, T1>>
     ELSE << TLCEval(F12Mul(f1, LineVal(ChordSlope(T1, S), T1, P))), TLCEval(E2!PAdd(T1, S)) >>
RECURSIVE MillerH(_,_,_,_,_)
MillerH(f, T, S, P, i) ==
  IF i < 0 THEN f
  ELSE LET st == MillerStep(f, T, S, P, Bit(XAbs, i)) IN MillerH(st[1], st[2], S, P, i - 1)
(* f_{|x|,S}(P) for finite P in E1, S in E2; 1 if either is the identity *)
Miller(P, S) ==
  IF Len(P) = 0 \/ Len(S) = 0 THEN F12One
  ELSE MillerH(F12One, S, S, P, NumBits(XAbs) - 2)

FinalExpE == Div(Mul(Three, Sub(QPow(12), One)), R)            \* 3 (q^12 - 1) / r
FinalExpDef(f) == F12Pow(f, FinalExpE)
(* the same power split as (q^6 - 1)(q^2 + 1) * 3 (q^4 - q^2 + 1)/r:             *)
(*   f^(q^6) = conj(f) on Fq12 = Fq6[w]/(w^2 - v)  (w^(q^6) = -w);                *)
(*   f^(q^2) by Frobenius.  MC_Pairing checks FinalExp = FinalExpDef.             *)
HardE == Div(Mul(Three, Add(Sub(QPow(4), QPow(2)), One)), R)
FinalExp(f) ==
  LET a == TLCEval(F12Mul(F12Conj(f), F12Inv(f)))
      b == TLCEval(F12Mul(F12Frob(a, 2), a))
  IN F12Pow(b, HardE)

Pairing(P, S) == FinalExp(F12Conj(Miller(P, S)))

(* e(g1, g2) as published by the RELIC authors (comment in src/bls12_381/tests/mod.rs) *)
RelicGT ==
  << << <<Hex(<<\h1250, \hebd8, \h71fc, \h0a92, \ha7b2, \hd831, \h68d0, \hd727, \h272d, \h441b, \hefa1, \h5c50, \h3dd8, \he90c, \he98d, \hb3e7, \hb6d1, \h94f6, \h0839, \hc508, \ha843, \h05aa, \hca17, \h89b6>>),
        Hex(<<\h089a, \h1c5b, \h46e5, \h110b, \h8675, \h0ec6, \ha532, \h3488, \h68a8, \h4045, \h483c, \h92b7, \haf5a, \hf689, \h452e, \hafab, \hf1a8, \h943e, \h5043, \h9f1d, \h5988, \h2a98, \heaa0, \h170f>>)>>,
       <<Hex(<<\h1368, \hbb44, \h5c7c, \h2d20, \h9703, \hf239, \h689c, \he34c, \h0378, \ha68e, \h72a6, \hb3b2, \h16da, \h0e22, \ha503, \h1b54, \hddff, \h5730, \h9396, \hb38c, \h881c, \h4c84, \h9ec2, \h3e87>>),
        Hex(<<\h1935, \h02b8, \h6edb, \h8857, \hc273, \hfa07, \h5a50, \h5129, \h37e0, \h794e, \h1e65, \ha761, \h7c90, \hd8bd, \h6606, \h5b1f, \hffe5, \h1d7a, \h5799, \h73b1, \h3150, \h21ec, \h3c19, \h934f>>)>>,
       <<Hex(<<\h01b2, \hf522, \h473d, \h1713, \h9112, \h5ba8, \h4dc4, \h007c, \hfbf2, \hf8da, \h752f, \h7c74, \h1852, \h03fc, \hca58, \h9ac7, \h19c3, \h4dff, \hbbaa, \hd843, \h1dad, \h1c1f, \hb597, \haaa5>>),
        Hex(<<\h0181, \h0715, \h4f25, \ha764, \hbd3c, \h7993, \h7a45, \hb845, \h46da, \h634b, \h8f6b, \he14a, \h8061, \he55c, \hceba, \h478b, \h23f7, \hdaca, \ha35c, \h8ca7, \h8bea, \he962, \h4045, \hb4b6>>)>> >>,
     << <<Hex(<<\h19f2, \h6337, \hd205, \hfb46, \h9cd6, \hbd15, \hc3d5, \ha04d, \hc887, \h84fb, \hb3d0, \hb2db, \hdea5, \h4d43, \hb2b7, \h3f2c, \hbb12, \hd583, \h86a8, \h703e, \h0f94, \h8226, \he47e, \he89d>>),
        Hex(<<\h06fb, \ha23e, \hb7c5, \haf0d, \h9f80, \h940c, \ha771, \hb6ff, \hd585, \h7baa, \hf222, \heb95, \ha7d2, \h809d, \h61bf, \he02e, \h1bfd, \h1b68, \hff02, \hf0b8, \h102a, \he1c2, \hd5d5, \hab1a>>)>>,
       <<Hex(<<\h11b8, \hb424, \hcd48, \hbf38, \hfcef, \h6808, \h3b0b, \h0ec5, \hc81a, \h93b3, \h30ee, \h1a67, \h7d0d, \h15ff, \h7b98, \h4e89, \h78ef, \h4888, \h1e32, \hfac9, \h1b93, \hb473, \h33e2, \hba57>>),
        Hex(<<\h0335, \h0f55, \ha7ae, \hfcd3, \hc31b, \h4fcb, \h6ce5, \h771c, \hc6a0, \he978, \h6ab5, \h9733, \h20c8, \h06ad, \h3608, \h2910, \h7ba8, \h10c5, \ha09f, \hfdd9, \hbe22, \h91a0, \hc25a, \h99a2>>)>>,
       <<Hex(<<\h04c5, \h8123, \h4d08, \h6a99, \h0224, \h9b64, \h728f, \hfd21, \ha189, \he879, \h35a9, \h5405, \h1c7c, \hdba7, \hb387, \h2629, \ha4fa, \hfc05, \h0662, \h45cb, \h9108, \hf024, \h2d0f, \he3ef>>),
        Hex(<<\h0f41, \he586, \h63bf, \h08cf, \h0686, \h72cb, \hd01a, \h7ec7, \h3bac, \ha4d7, \h2ca9, \h3544, \hdeff, \h686b, \hfd6d, \hf543, \hd48e, \haa24, \hafe4, \h7e1e, \hfde4, \h4938, \h3b67, \h6631>>)>> >> >>

(* e(g1,g2): loaded from a fixture computed by Pairing(Gen1, Gen2) (Gen_Fixtures) and  *)
(* re-certified by MC_Pairing; equal to the RELIC value.                               *)
GT == RelicGT

AffP(a) == OfAffRec(a)

(* C03: direct evaluation *)
JudgePairing(e) ==
  LET P == AffP(e.p)  S == AffP(e.q)
      X == TLCEval(Pairing(P, S))
  IN /\ InG1(P) /\ InG2(S)
     /\ e.out.e = X /\ e.out.pw = X /\ e.out.qw = X
     /\ e.out.proj = X /\ e.out.prep = <<"some", X>>
     /\ e.out.p_prep_zero = (Len(P) = 0) /\ e.out.q_prep_zero = (Len(S) = 0)
     /\ ((Len(P) = 0 \/ Len(S) = 0) <=> X = F12One)

(* C03: bilinearity as a relation between two library results *)
JudgeBilin(e) ==
  LET P == AffP(e.p)  S == AffP(e.q)
      ab == Rem(Mul(e.a, e.b), R)
  IN /\ E1!OnCurve(P) /\ E2!OnCurve(S)
     /\ GRep("G1", e.out.ap, E1!PMul(P, e.a))
     /\ GRep("G2", e.out.bq, E2!PMul(S, e.b))
     /\ e.out.e1 = F12Pow(e.out.e0, ab)
     /\ (e.check_order => F12Pow(e.out.e0, R) = F12One)
     /\ ((Len(P) # 0 /\ Len(S) # 0) => e.out.e0 # F12One)

(* C12 *)
JudgeFinalExp(e) ==
  IF e.f = F12Zero THEN IsNone(e.out)
  ELSE /\ IsSome(e.out)
       /\ (IF e.f[2] = F6Zero THEN e.out[2] = F12One                 \* f in Fq6: q^6 - 1 divides the exponent
           ELSE IF "cheap" \in DOMAIN e THEN F12Pow(e.out[2], R) = F12One   \* some element of the target group
           ELSE e.out[2] = FinalExp(e.f))
(* multiplicativity and order, as relations between library results *)
JudgeFeRel(e) ==
  /\ e.out.fg = F12Mul(e.f, e.g)
  /\ IsSome(e.out.ef) /\ IsSome(e.out.eg) /\ IsSome(e.out.efg)
  /\ e.out.efg[2] = F12Mul(e.out.ef[2], e.out.eg[2])
  /\ F12Pow(e.out.ef[2], R) = F12One

(* C11: labelled pairs P_i = [a_i]g1, Q_i = [b_i]g2: value is e(g1,g2)^(sum a_i b_i) *)
RECURSIVE SumAB(_,_,_)
SumAB(as, bs, i) == IF i > Len(as) THEN 0 ELSE as[i] * bs[i] + SumAB(as, bs, i + 1)
GTPow(n) == IF n >= 0 THEN F12Pow(GT, FromInt(n)) ELSE F12Conj(F12Pow(GT, FromInt(-n)))
   \* on the cyclotomic subgroup (norm 1 over Fq6) the inverse is the conjugate
LabelsOK(e) ==
  /\ Len(e.out.ps) = Len(e.as) /\ Len(e.out.qs) = Len(e.bs)
  /\ \A i \in 1..Len(e.as) : AffRep(e.out.ps[i], E1!PMulInt(Gen1, e.as[i]))
  /\ \A i \in 1..Len(e.bs) : AffRep(e.out.qs[i], E2!PMulInt(Gen2, e.bs[i]))
JudgePairl(e) ==
  /\ LabelsOK(e)
  /\ CASE e.fn = "miller" -> /\ IsSome(e.out.fe) /\ e.out.fe[2] = GTPow(SumAB(e.as, e.bs, 1))
                              \* the value does not depend on the form in which the list is handed over
                              /\ ("forms" \in DOMAIN e.out => \A k \in 1..Len(e.out.forms) : e.out.forms[k] = e.out.fe)
       [] e.fn = "pmulti" -> e.out.v = GTPow(SumAB(e.as, e.bs, 1))
       [] e.fn = "pprod"  -> e.out.v = GTPow(SumAB(e.as, e.bs, 1))
       [] e.fn = "reuse"  ->
            \A k \in 1..Len(e.lists) :
               LET as == [i \in 1..Len(e.lists[k]) |-> e.as[e.lists[k][i][1] + 1]]
                   bs == [i \in 1..Len(e.lists[k]) |-> e.bs[e.lists[k][i][2] + 1]]
               IN IsSome(e.out.v[k]) /\ e.out.v[k][2] = GTPow(SumAB(as, bs, 1))
(* arbitrary points: the joint value equals the product of the individually logged pairings *)
RECURSIVE F12Prod(_,_)
F12Prod(s, i) == IF i > Len(s) THEN F12One ELSE F12Mul(s[i], F12Prod(s, i + 1))
JudgePairr(e) ==
  /\ IsSome(e.out.fe) /\ e.out.fe[2] = F12Prod(e.out.each, 1)
  /\ e.out.multi = e.out.fe[2]
  /\ \A i \in 1..Len(e.pairs) :
        (e.pairs[i][1][3] \/ e.pairs[i][2][3]) => e.out.each[i] = F12One
=============================================================================
