------------------------------ MODULE Gen_MapN ------------------------------
(***************************************************************************)
(* Script generation (spec -> impl) for the simplified SWU map: inputs t   *)
(* whose INTERMEDIATE  N = Z^2 t^4 + Z t^2  (the quantity whose vanishing  *)
(* selects the exceptional branch) has a sparse STORED (Montgomery) form - *)
(* only one 64-bit word of each coefficient non-zero.  A zero test that    *)
(* walks the stored words and skips one takes the exceptional branch for   *)
(* exactly these inputs, which look like random field elements.  For a     *)
(* chosen N: w = Z t^2 solves w^2 + w = N, and t = sqrt(w / Z).  Contents  *)
(* of the word are tried in turn until a t exists (about one in four).     *)
(* Every t is certified: the specification's N(t) is recomputed.           *)
(***************************************************************************)
EXTENDS JMap, PolyFq, Json, IOUtils, SequencesExt
OutDir == IOEnv.OUT
Thorough == IOEnv.VERIF_TIER = "thorough"

RInv == InvMod(Rem(Pow2(384), Q), Q)
OfStored(m) == MulMod(m, RInv, Q)
NOf(g, t) == LET zu2 == KMul(g, SwuZ(g), KSqr(g, t)) IN KAdd(g, KSqr(g, zu2), zu2)

QuadRoots1(b, c) ==
  LET disc == FqSub(FqSqr(b), FqMul(Four, c))  r == FqSqrtCand(disc)  h == FqInv(Two) IN
  IF FqSqr(r) # disc THEN <<>> ELSE << FqMul(FqSub(r, b), h), FqMul(FqSub(FqNeg(r), b), h) >>
F2Half == <<FqInv(Two), Zero>>
QuadRoots2(b, c) ==
  LET disc == F2Sub(F2Sqr(b), F2Mul(<<Four, Zero>>, c))  r == F2Sqrt(disc) IN
  IF ~r[1] THEN <<>> ELSE << F2Mul(F2Sub(r[2], b), F2Half), F2Mul(F2Sub(F2Neg(r[2]), b), F2Half) >>
KOfGen(g) == IF g = "G1" THEN FqPow(<<3>>, <<555>>) ELSE <<FqPow(<<3>>, <<556>>), FqPow(<<7>>, <<557>>)>>
(* inputs with N(t) = n *)
TsFor(g, n) ==
  LET ws == IF g = "G1" THEN QuadRoots1(One, FqNeg(n)) ELSE QuadRoots2(F2One, F2Neg(n)) IN
  FlattenSeq([i \in 1..Len(ws) |->
     LET v == KMul(g, ws[i], KInv0(g, SwuZ(g)))
         s == GSqrt(g, v)
     IN IF s[1] /\ s[2] # KZero(g) /\ NOf(g, s[2]) = n THEN <<s[2]>> ELSE <<>>])
(* the first content k = k0, k0+1, ... of word i for which an input exists; shape: which coefficients carry it *)
NVal(g, i, k, shape) ==
  LET a == OfStored(Mul(FromInt(k), Pow2(64 * i))) IN
  IF g = "G1" THEN a
  ELSE CASE shape = 0 -> <<a, a>> [] shape = 1 -> <<a, Zero>> [] shape = 2 -> <<Zero, a>>
         [] shape = 3 -> <<a, OfStored(Mul(FromInt(k + 1), Pow2(64 * i)))>>
RECURSIVE Find(_,_,_,_,_)
Find(g, i, k, shape, fuel) ==
  IF fuel = 0 THEN <<>>
  ELSE LET ts == TsFor(g, NVal(g, i, k, shape)) IN
       IF Len(ts) > 0 THEN <<ts[1]>> ELSE Find(g, i, k + 1, shape, fuel - 1)
Inputs1 == FlattenSeq([i \in 1..6 |-> Find("G1", i - 1, 1, 0, 12)])
Inputs2 == FlattenSeq([i \in 1..6 |-> FlattenSeq([sh \in 1..(IF Thorough THEN 4 ELSE 2) |->
              Find("G2", i - 1, 1, IF Thorough \/ i = 6 THEN sh - 1 ELSE (sh - 1) * 3, 12)])])
(* inputs whose SWU denominator x_den = -A' N is 1 or -1 (the Jacobian image has Z = +-1 without   *)
(* having been normalised), and N = +-1                                                              *)
SpecialN(g) == LET ia == KInv0(g, EpA(g)) IN << KNeg(g, ia), ia, KOne(g), KNeg(g, KOne(g)) >>
SpecialTs(g) == FlattenSeq([i \in 1..4 |-> TsFor(g, SpecialN(g)[i])])
Special1 == SpecialTs("G1")
Special2 == SpecialTs("G2")
ASSUME PrintT(<<"inputs with x_den = +-1 or N = +-1", Len(Special1), Len(Special2)>>)
SpecialOps(g, ts) == FlattenSeq([i \in 1..Len(ts) |->
   << [op |-> "swu", g |-> g, t |-> ts[i], cls |-> "swu-denominator-unit"],
      [op |-> "map", g |-> g, u |-> ts[i], cls |-> "swu-denominator-unit"],
      [op |-> "map2", g |-> g, u0 |-> ts[i], u1 |-> KOfGen(g), cls |-> "swu-denominator-unit"],
      [op |-> "map2", g |-> g, u0 |-> KOfGen(g), u1 |-> ts[i], cls |-> "swu-denominator-unit"] >>])
(* G1: the second intermediate, the projective numerator of g(x1),                                   *)
(*      G = B'(B'^2 (1 + N)^3 + A'^3 N^2)     (x1 = B'(N + 1) / (-A' N)),                               *)
(* with a stored form from the boundary catalogue - around (p-1)/2 (where G and -G share their high   *)
(* words), next to 0 and p, one word only.  N from the cubic (PolyFq), then t as above.               *)
GNum(n) == FqMul(E1pB, FqAdd(FqMul(FqSqr(E1pB), FqMul(FqSqr(FqAdd(One, n)), FqAdd(One, n))), FqMul(FqMul(FqSqr(E1pA), E1pA), FqSqr(n))))
GPoly(v) == \* B'^3 (1+N)^3 + A'^3 B' N^2 - v  as a polynomial in N (ascending coefficients)
  LET b3 == FqMul(FqSqr(E1pB), E1pB)  a3b == FqMul(FqMul(FqSqr(E1pA), E1pA), E1pB) IN
  << FqSub(b3, v), FqMul(<<3>>, b3), FqAdd(FqMul(<<3>>, b3), a3b), b3 >>
TsForG(v) == LET ns == RootsOf(DistinctRootPart(GPoly(v)), 1) IN
             FlattenSeq([i \in 1..Len(ns) |-> SelectSeq(TsFor("G1", ns[i]), LAMBDA t : GNum(NOf("G1", t)) = v)])
HalfQm == Div(Sub(Q, One), Two)
(* first stored value base + d (d = 0, 1, ...) for which an input exists *)
RECURSIVE GScan(_,_,_)
GScan(base, d, fuel) ==
  IF fuel = 0 THEN <<>>
  ELSE LET ts == TsForG(OfStored(Add(base, FromInt(d)))) IN
       IF Len(ts) > 0 THEN <<ts[1]>> ELSE GScan(base, d + 1, fuel - 1)
GBases == << Sub(HalfQm, <<12>>), Add(HalfQm, One), Sub(HalfQm, Pow2(64)), Add(HalfQm, Pow2(200)),
             One, Sub(Q, <<30>>), Pow2(64), Pow2(320), Mul(<<3>>, Pow2(320)) >>
GInputs == FlattenSeq([i \in 1..(IF Thorough THEN 9 ELSE 5) |-> GScan(GBases[i], 0, 24)])
ASSUME PrintT(<<"G1 inputs with a boundary stored numerator of g(x1)", Len(GInputs)>>)
ASSUME TRUE
GOps == FlattenSeq([i \in 1..Len(GInputs) |->
   << [op |-> "swu", g |-> "G1", t |-> GInputs[i], cls |-> "numerator-stored-boundary"],
      [op |-> "swu", g |-> "G1", t |-> FqNeg(GInputs[i]), cls |-> "numerator-stored-boundary"] >>])
ASSUME ndJsonSerialize(OutDir \o "/swu-g1-gnum-100.script.ndjson", GOps)
ASSUME PrintT(<<"inputs with a sparse stored intermediate", Len(Inputs1), Len(Inputs2)>>)
ASSUME Len(Inputs1) >= 4 /\ Len(Inputs2) >= 6
Ops(g, ts) == FlattenSeq([i \in 1..Len(ts) |->
   << [op |-> "swu", g |-> g, t |-> ts[i], cls |-> "intermediate-stored-sparse"],
      [op |-> "swu", g |-> g, t |-> KNeg(g, ts[i]), cls |-> "intermediate-stored-sparse"] >>
   \o (IF i % 3 = 1 THEN << [op |-> "map", g |-> g, u |-> ts[i], cls |-> "intermediate-stored-sparse"] >> ELSE <<>>)])
ASSUME ndJsonSerialize(OutDir \o "/swu-g1-nsparse-100.script.ndjson", Ops("G1", Inputs1))
ASSUME ndJsonSerialize(OutDir \o "/swu-g2-nsparse-100.script.ndjson", Ops("G2", Inputs2))
ASSUME Len(Special1) = 0 \/ ndJsonSerialize(OutDir \o "/unitden-g1-100.script.ndjson", SpecialOps("G1", Special1))
ASSUME Len(Special2) = 0 \/ ndJsonSerialize(OutDir \o "/unitden-g2-100.script.ndjson", SpecialOps("G2", Special2))
=============================================================================
