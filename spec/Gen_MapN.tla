------------------------------ MODULE Gen_MapN ------------------------------
(***************************************************************************)
(* Script generation (spec -> impl) for the simplified SWU map: inputs t   *)
(* whose INTERMEDIATE  N = Z^2 t^4 + Z t^2  (the quantity whose vanishing  *)
(* selects the exceptional branch) has a sparse STORED (Montgomery) form - *)
(* only one 64-bit word of each coefficient non-zero.  A zero test that    *)
(* walks the stored words and skips one takes the exceptional branch for   *)
(* exactly these inputs, which look like random field elements.  For a     *)
(* chosen N: w = Z t^2 solves w^2 + w = N, and t = sqrt(w / Z).  Contents  *)
(* of the word are tried in turn until a t exists (about one in four).     *)
(* Every t is certified: the specification's N(t) is recomputed.           *)
(***************************************************************************)
EXTENDS JMap, Json, IOUtils, SequencesExt
OutDir == IOEnv.OUT
Thorough == IOEnv.VERIF_TIER = "thorough"

RInv == InvMod(Rem(Pow2(384), Q), Q)
OfStored(m) == MulMod(m, RInv, Q)
NOf(g, t) == LET zu2 == KMul(g, SwuZ(g), KSqr(g, t)) IN KAdd(g, KSqr(g, zu2), zu2)

QuadRoots1(b, c) ==
  LET disc == FqSub(FqSqr(b), FqMul(Four, c))  r == FqSqrtCand(disc)  h == FqInv(Two) IN
  IF FqSqr(r) # disc THEN <<>> ELSE << FqMul(FqSub(r, b), h), FqMul(FqSub(FqNeg(r), b), h) >>
F2Half == <<FqInv(Two), Zero>>
QuadRoots2(b, c) ==
  LET disc == F2Sub(F2Sqr(b), F2Mul(<<Four, Zero>>, c))  r == F2Sqrt(disc) IN
  IF ~r[1] THEN <<>> ELSE << F2Mul(F2Sub(r[2], b), F2Half), F2Mul(F2Sub(F2Neg(r[2]), b), F2Half) >>
(* inputs with N(t) = n *)
TsFor(g, n) ==
  LET ws == IF g = "G1" THEN QuadRoots1(One, FqNeg(n)) ELSE QuadRoots2(F2One, F2Neg(n)) IN
  FlattenSeq([i \in 1..Len(ws) |->
     LET v == KMul(g, ws[i], KInv0(g, SwuZ(g)))
         s == GSqrt(g, v)
     IN IF s[1] /\ s[2] # KZero(g) /\ NOf(g, s[2]) = n THEN <<s[2]>> ELSE <<>>])
(* the first content k = k0, k0+1, ... of word i for which an input exists; shape: which coefficients carry it *)
NVal(g, i, k, shape) ==
  LET a == OfStored(Mul(FromInt(k), Pow2(64 * i))) IN
  IF g = "G1" THEN a
  ELSE CASE shape = 0 -> <<a, a>> [] shape = 1 -> <<a, Zero>> [] shape = 2 -> <<Zero, a>>
         [] shape = 3 -> <<a, OfStored(Mul(FromInt(k + 1), Pow2(64 * i)))>>
RECURSIVE Find(_,_,_,_,_)
Find(g, i, k, shape, fuel) ==
  IF fuel = 0 THEN <<>>
  ELSE LET ts == TsFor(g, NVal(g, i, k, shape)) IN
       IF Len(ts) > 0 THEN <<ts[1]>> ELSE Find(g, i, k + 1, shape, fuel - 1)
Inputs1 == FlattenSeq([i \in 1..6 |-> Find("G1", i - 1, 1, 0, 12)])
Inputs2 == FlattenSeq([i \in 1..6 |-> FlattenSeq([sh \in 1..(IF Thorough THEN 4 ELSE 2) |->
              Find("G2", i - 1, 1, IF i = 6 THEN sh - 1 ELSE (sh - 1) * 3, 12)])])
ASSUME PrintT(<<"inputs with a sparse stored intermediate", Len(Inputs1), Len(Inputs2)>>)
ASSUME Len(Inputs1) >= 4 /\ Len(Inputs2) >= 6
Ops(g, ts) == FlattenSeq([i \in 1..Len(ts) |->
   << [op |-> "swu", g |-> g, t |-> ts[i], cls |-> "intermediate-stored-sparse"],
      [op |-> "swu", g |-> g, t |-> KNeg(g, ts[i]), cls |-> "intermediate-stored-sparse"] >>
   \o (IF i % 3 = 1 THEN << [op |-> "map", g |-> g, u |-> ts[i], cls |-> "intermediate-stored-sparse"] >> ELSE <<>>)])
ASSUME ndJsonSerialize(OutDir \o "/swu-g1-nsparse-100.script.ndjson", Ops("G1", Inputs1))
ASSUME ndJsonSerialize(OutDir \o "/swu-g2-nsparse-100.script.ndjson", Ops("G2", Inputs2))
=============================================================================
