"""Property table for ./check: which models are checked, which generators and
workloads run, for each property.  (Orchestration data only.)"""

MC = "model_checking"

PROPS = {
    "C03": {"level": MC, "steps": [{"kind": "wl", "name": "c03"}]},
    "C11": {"level": MC, "steps": [{"kind": "wl", "name": "c11"}]},
    "C12": {"level": MC, "steps": [{"kind": "wl", "name": "c12"}]},
    "C06": {"level": MC, "steps": [{"kind": "wl", "name": "c06"}]},
    "C13": {"level": MC, "steps": [{"kind": "wl", "name": "c13"}]},
    "C14": {"level": MC, "steps": [{"kind": "wl", "name": "c14"}]},
    "C15": {"level": MC, "steps": [{"kind": "wl", "name": "c15"}]},
    "C16": {"level": MC, "steps": [{"kind": "wl", "name": "c16"}]},
    "C17": {"level": MC, "steps": [{"kind": "wl", "name": "c17"}]},
    "C04": {"level": MC, "steps": [{"kind": "wl", "name": "c04"}]},
    "C05": {"level": MC, "steps": [{"kind": "wl", "name": "c05"}]},
    "C07": {"level": MC, "steps": [{"kind": "wl", "name": "c07"}]},
    "C19": {"level": MC, "steps": [{"kind": "wl", "name": "c19"}]},
    "C02": {"level": MC, "steps": [{"kind": "wl", "name": "c02"}]},
    "C10": {"level": MC, "steps": [{"kind": "wl", "name": "c10"}]},
    "C01": {"level": MC, "steps": [
        {"kind": "gen", "name": "Gen_C01"},
        {"kind": "wl", "name": "c01"},
    ]},
    "C09": {"level": MC, "steps": [{"kind": "wl", "name": "c09"}]},
    "C18": {"level": MC, "steps": [{"kind": "wl", "name": "c18"}]},
    "C08": {
        "level": MC,
        "steps": [
            {"kind": "wl", "name": "c08"},
        ],
    },
}
