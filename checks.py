"""Property table for ./check: which models are checked, which generators and
workloads run, for each property.  (Orchestration data only.)"""

MC = "model_checking"

def _math(lo, hi, shards):
    return {"kind": "mc", "name": "MC_Math", "workers": 1, "shards": shards,
            "env": {"MATH_LO": str(lo), "MATH_HI": str(hi)}}


def _iso(lo=1, hi=16):
    return {"kind": "mc", "name": "MC_Iso", "workers": 1, "env": {"MATH_LO": str(lo), "MATH_HI": str(hi)}}


def _pip(cfg, workers=4, thorough_only=False):
    d = {"kind": "mc", "name": "MC_Pippenger", "cfg": "MC_Pippenger_%s.cfg" % cfg, "workers": workers}
    if thorough_only:
        d["tiers"] = ["thorough"]
    return d


def _hash(lo, hi):
    return {"kind": "mc", "name": "MC_Hash", "workers": 4, "env": {"MATH_LO": str(lo), "MATH_HI": str(hi)}}


def _gen(name, only=None):
    d = {"kind": "gen", "name": name}
    if only:
        d["only"] = only     # run only the generated scripts whose file name starts with this
    return d


def _wl(name):
    return {"kind": "wl", "name": name}


PROPS = {
    "C01": {"level": MC, "steps": [_math(33, 54, 8), {"kind": "mc", "name": "MC_Group", "workers": 4},
                                   _gen("Gen_C01"), _gen("Gen_Rep", "rep-prog"), _wl("c01")]},
    "C02": {"level": MC, "steps": [{"kind": "mc", "name": "MC_Wnaf", "workers": 4},
                                   {"kind": "mc", "name": "MC_WnafForm", "workers": 4}, _gen("Gen_C02"), _wl("c02")]},
    "C03": {"level": MC, "steps": [_math(57, 59, 3), _wl("c03")]},
    "C04": {"level": MC, "steps": [{"kind": "mc", "name": "MC_Decode", "workers": 2}, _gen("Gen_Enc"), _wl("c04")]},
    "C05": {"level": MC, "steps": [_gen("Gen_Enc"), _gen("Gen_Rep", "rep-enc"), _wl("c05")]},
    "C06": {"level": MC, "steps": [_iso(9, 16), _hash(1, 9), _wl("c06")]},
    "C07": {"level": MC, "steps": [_math(55, 56, 2), _gen("Gen_Enc"), _gen("Gen_Map"), _wl("c07")]},
    "C08": {"level": MC, "steps": [{"kind": "selfmath", "name": "SelfMath"}, _gen("Gen_C08"), _wl("c08")]},
    "C09": {"level": MC, "steps": [_math(1, 32, 16), _wl("c09")]},
    "C10": {"level": MC, "steps": [
        _pip("w4c1"), _pip("w4c2"), _pip("w4c3"), _pip("w4c4"), _pip("w3n3c2"), _pip("w3n3c3"),
        _pip("w4c3p1", 2), _pip("w4c3p0", 1),
        _pip("w4c5", 8, True), _pip("w3n3c1", 8, True), _pip("w3n3c4", 8, True), _pip("w5c2", 8, True),
        _pip("w5c3", 8, True), _pip("w5c5", 8, True), _pip("w3n2c2p3", 8, True),
        _wl("c10")]},
    "C11": {"level": MC, "steps": [_math(59, 59, 1), {"kind": "mc", "name": "MC_PairingProduct", "workers": 4}, _wl("c11")]},
    "C12": {"level": MC, "steps": [_math(59, 60, 2), _wl("c12")]},
    "C13": {"level": MC, "steps": [_hash(1, 6), _wl("c13")]},
    "C14": {"level": MC, "steps": [_iso(9, 16), _gen("Gen_Map"), _gen("Gen_MapSub"), _gen("Gen_MapY"), _gen("Gen_MapN", "unitden"), _wl("c14")]},
    "C15": {"level": MC, "steps": [_iso(9, 16), _gen("Gen_Map"), _gen("Gen_MapDiag"), _gen("Gen_MapY"), _gen("Gen_MapN"), _wl("c15")]},
    "C16": {"level": MC, "steps": [_iso(), _gen("Gen_Iso"), _gen("Gen_IsoPrefix"), _gen("Gen_Rep", "rep-iso"), _wl("c16")]},
    "C17": {"level": MC, "steps": [_math(55, 56, 2), _gen("Gen_Enc"), _gen("Gen_Rep", "rep-clearh"), _wl("c17")]},
    "C18": {"level": MC, "steps": [_math(1, 8, 8),
                                   {"kind": "mc", "name": "MC_Sqrt", "workers": 4,
                                    "cfg": {"quick": "MC_Sqrt.cfg", "thorough": "MC_Sqrt_thorough.cfg"}},
                                   _gen("Gen_C18"), _wl("c18")]},
    "C19": {"level": MC, "steps": [{"kind": "mc", "name": "MC_Stream", "workers": 4}, _gen("Gen_Enc"), _wl("c19"), _wl("c04")]},
    "C20": {"level": "exploration", "steps": [{"kind": "mc", "name": "MC_Concurrent", "workers": 4},
                                              {"kind": "conc", "name": "conc"}]},
}

# ---------------------------------------------------------------------------
# texts for MANIFEST.json (tools/mkmanifest.py)
_TV = "TLA+ trace validation by TLC"
TEXT = {
    "C01": {"technique": "TLA+ CurveMachine (register machine over the affine chord-and-tangent law) + TLC-generated exhaustive operand table / batches / representatives with prescribed coordinates + TLC trace validation of every API call",
            "level": "Every recorded group operation (exhaustive labelled operand table incl. identity, P+P, P+(-P), order-3/13 points, same-y pairs, both representation classes; all batch arrangements up to length 4; seeded random programs on full-order points) is a step of the TLA+ CurveMachine, whose post-state is computed with the textbook affine law; TLC validates the raw Jacobian result of each step."},
    "C02": {"technique": "TLA+ double-and-add oracle + wNAF digit arithmetic statement + context-history traces validated by TLC",
            "level": "For a catalogue of scalars (boundaries, single bits, word-straddling, >= r, 256-bit) and points (subgroup, full order, order 3) every multiplication path's result is validated by TLC against MSB-first double-and-add; wNAF digits against sum d_i 2^i = k with odd bounded digits; reused contexts against per-call semantics; recommendations against 2..22."},
    "C03": {"technique": "textbook optimal-ate pairing in TLA+ (affine Miller loop on the twist, dense Fq12, plain power) evaluated by TLC on recorded calls; bilinearity as a TLC-checked relation",
            "level": "TLC evaluates the textbook pairing (anchored to the published RELIC e(g1,g2)) on recorded inputs and compares all three entry points; bilinearity, order and non-degeneracy are validated as relations e([a]P,[b]Q) = e(P,Q)^(ab mod r) with [a]P, [b]Q validated in the same event."},
    "C04": {"technique": "TLA+ staged decoder (Decode) as ordered validations + TLC trace validation of checked and unchecked decoders on generated byte strings",
            "level": "For every recorded byte string TLC evaluates the ordered-stage decoder of the spec and requires the same verdict, the same error category and the same point from both decoders; accepted strings must re-encode to themselves."},
    "C05": {"technique": "TLA+ Encode/Decode functions on byte strings (ZCash format) + TLC-generated boundary points / representatives + TLC trace validation of encoders, stream writers (any sink) and decoders",
            "level": "Bytes of both encodings are compared byte for byte with the spec's ZCash encoding, lengths fixed, decode(encode(P)) = P, and every accepted string re-encodes to itself (C04 traces)."},
    "C06": {"technique": "RFC 9380 pipeline in TLA+ (SHA-256 itself in TLA+, anchored by TLC to the published RFC 9380 J.9.1/J.10.1 points; other hashes as a recorded graph) + TLC trace validation",
            "level": "TLC recomputes expand_message -> hash_to_field -> SSWU -> isogeny -> add -> clear_cofactor from the recorded hash graph (for SHA-256 every graph entry is recomputed with the TLA+ SHA-256) and requires the library's point to represent the result, which must lie in the subgroup; messages up to 2^17 bytes."},
    "C07": {"technique": "TLA+ definition of subgroup membership ([r]P = O on the curve) evaluated by TLC on every recorded producer output and predicate call",
            "level": "Predicate results are compared with the definition on identity, subgroup, full-order, order-3, off-curve inputs; every point returned by the safe producers is checked to be on the curve and annihilated by r."},
    "C08": {"technique": "TLA+ integers-mod-p specification (BigNat) + TLC-generated operands with sparse stored (Montgomery) words + TLC trace validation of boundary catalogue x catalogue and random operands",
            "level": "Every recorded field / representation operation is compared by TLC with integer arithmetic modulo q, r resp. 2^384, 2^256; operands by value shape (catalogue) and by stored-form shape (generated from the spec)."},
    "C09": {"technique": "TLA+ quotient-ring tower with schoolbook products, Frobenius by definition (x^(q^k)) + TLC trace validation",
            "level": "Every recorded tower operation equals the schoolbook quotient-ring result; Frobenius for k = 0..13, 24, 25, 35, 36, 2^32+5, usize::MAX equals the spec's Frobenius (itself checked against x^(q^k)); sparse products equal dense products."},
    "C10": {"technique": "TLA+ sum-of-[k]P oracle; label homomorphism sum [k_i][a_i]B = [sum a_i k_i]B for large inputs; TLC trace validation",
            "level": "All three MSM entry points are validated on input shapes (empty, duplicates, inverse pairs, identities, zero scalars, mismatched lengths), every window 1..20, single bits at all offsets, and n across every boundary of the window heuristic."},
    "C11": {"technique": "TLA+ PairingProduct over labelled pairs (value gt^(sum a_i b_i)) + relation to individually validated pairings; TLC trace validation",
            "level": "All lists up to length 3 over a pool with identities and cancelling combinations, longer random lists, reuse of prepared elements, and arbitrary-point products are validated."},
    "C12": {"technique": "TLA+ final exponentiation as plain power 3(q^12-1)/r evaluated by TLC + multiplicativity/order relations",
            "level": "Direct TLC evaluation on units incl. w, sparse and random elements; zero must fail; subfield elements must map to one; FE(fg) = FE(f)FE(g) and FE(f)^r = 1 on random pairs."},
    "C13": {"technique": "RFC 9380 expand_message_xmd/xof and hash_to_field in TLA+ (SHA-256/224 in TLA+ anchored to FIPS 180-4 digests and RFC 9380 K.1 vectors by TLC; other hashes as a recorded graph); TLC trace validation",
            "level": "Every hash input the library produced and every output byte is validated for lengths across block boundaries, the 255-block limit +-1 (abort), all four expanders, three fields and chosen reduction blocks."},
    "C14": {"technique": "TLA+ RFC composition clear_cofactor(iso(sswu(u0)) + iso(sswu(u1))) evaluated by TLC on recorded calls; inputs constructed by TLC by inverting the maps (colliding images, image in the subgroup / in the isogeny kernel, special ordinate, unit denominator)",
            "level": "map_to_curve / map2_to_curve results are validated for random, zero, special, u1 = u0 and u1 = -u0 inputs; the result must lie in the subgroup and the call must not panic."},
    "C15": {"technique": "TLA+ straight-line simplified SWU (RFC 9380 6.6.2) evaluated by TLC on recorded calls; inputs constructed by TLC from prescribed values / stored forms of the map's intermediates",
            "level": "The SWU output must represent the RFC point on the isogenous curve for special and random t in Fq and Fq2, and for t, -t pairs."},
    "C16": {"technique": "TLA+ rational isogeny maps (tables certified by polynomial identity) evaluated by TLC; homomorphism checked with the spec's own group law on E'; special points found by polynomial root finding in TLA+ (kernel, prefix roots, common points)",
            "level": "Images of SWU points, negatives, rescaled representatives and identities are validated; iso(P +' Q) = iso(P) + iso(Q) with +' computed by the spec."},
    "C17": {"technique": "TLA+ [h_eff]P by double-and-add evaluated by TLC on full-order, torsion and cofactor-only curve points in TLC-generated representatives",
            "level": "clear_h output must represent [h_eff]P and lie in the subgroup for full-order, rescaled, subgroup, order-3 and identity inputs."},
    "C18": {"technique": "TLA+ Euler criterion / relational square root / sgn0 / ordering; the Fq2 square-root routine as a TLA+ state machine model-checked by TLC from every element of small-field analogues; TLC-generated inputs per value of the routine's intermediate alpha; TLC trace validation",
            "level": "sqrt is validated relationally (b^2 = a iff Euler symbol != -1), legendre against Euler (norm for Fq2), sgn0/ordering/negate_if against the definitions, incl. y / -y pairs; SqrtAlg exhaustively for p = 3..31 (thorough ..67); inputs with alpha = a^((q-1)/2) in {+-1, +-u, +-1+-su, +-s+-u, +-t(1+-u)} constructed by the spec."},
    "C19": {"technique": "TLA+ Stream machine (write buffer, read buffer, cursor; MC_Stream) + TLC trace validation of histories, of every reader / writer kind, and of the decode classes through the stream API",
            "level": "Mixed-type round trips on one stream, truncation at prefix lengths, flag mismatch, non-reduced values at every coefficient position and rejected encodings are validated step by step incl. bytes written and cursor position."},
    "C20": {"technique": "TLA+ memo specification (operations are pure functions; MC_Concurrent) validating merged multi-thread traces with per-thread sequence numbers: permuted, concurrent and lock-step schedules, mutually waiting decodes",
            "level": "Exploration of schedules by sampling: a catalogue of ~80 operation instances (each judged against the mathematics) is re-executed in reversed order and from 16 threads in random orders, incl. a wNAF table and prepared pairing elements shared between threads; TLC requires bit-identical results and complete per-thread histories.",
            "note": "Schedules are sampled, not enumerated; a data race without observable effect during the observed runs is invisible. Trusted base as for the other checks."},
}
