"""Property table for ./check: which models are checked, which generators and
workloads run, for each property.  (Orchestration data only.)"""

MC = "model_checking"

PROPS = {
    "C08": {
        "level": MC,
        "steps": [
            {"kind": "wl", "name": "c08"},
        ],
    },
}
