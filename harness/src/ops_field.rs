//! Field-level operations: prime fields (Fq, Fr), their fixed-width
//! representation types, and the tower Fq2/Fq6/Fq12.
use crate::j::*;
use ff::{Field, LegendreSymbol, PrimeField, PrimeFieldRepr, SqrtField};
use pairing::bls12_381::{Fq, Fq12, Fq2, Fq6, FqRepr, Fr, FrRepr};
use pairing::signum::{Sgn0Result, Signum0};
use serde_json::{json, Value};
use std::cmp::Ordering;

/// every comparison entry point (cmp and the four operators, which can be overridden separately)
pub fn ordx_j<T: Ord>(a: &T, b: &T) -> Value {
    json!({"c": ord_j(a.cmp(b)), "lt": a < b, "le": a <= b, "gt": a > b, "ge": a >= b,
           "pc": match a.partial_cmp(b) { Some(o) => ord_j(o), None => json!(9) },
           "max_is_a": std::cmp::max(a, b) as *const T == a as *const T || a == b})
}
pub fn ord_j(o: Ordering) -> Value {
    match o {
        Ordering::Less => json!(-1),
        Ordering::Equal => json!(0),
        Ordering::Greater => json!(1),
    }
}
pub fn leg_j(l: LegendreSymbol) -> Value {
    match l {
        LegendreSymbol::Zero => json!(0),
        LegendreSymbol::QuadraticResidue => json!(1),
        LegendreSymbol::QuadraticNonResidue => json!(-1),
    }
}
pub fn opt_j<T: J>(o: Option<T>) -> Value {
    match o {
        Some(v) => json!(["some", v.to_j()]),
        None => json!(["none"]),
    }
}
pub fn sgn_j(s: Sgn0Result) -> Value {
    match s {
        Sgn0Result::NonNegative => json!(0),
        Sgn0Result::Negative => json!(1),
    }
}
fn sgn_of(v: &Value) -> Sgn0Result {
    if v.as_u64().unwrap() == 1 {
        Sgn0Result::Negative
    } else {
        Sgn0Result::NonNegative
    }
}

/// exponent: nat value + number of 64-bit words to pass ("ew")
fn exp_words(op: &Value) -> Vec<u64> {
    let n = op["ew"].as_u64().expect("ew") as usize;
    nat_to_words(&op["e"], n).expect("exponent does not fit ew words")
}

/// operations common to every field of the library
/// a reader that hands out at most `chunk` bytes per read call
pub struct ChunkRd<'a, 'b> {
    pub inner: &'a mut std::io::Cursor<&'b [u8]>,
    pub chunk: usize,
}
impl<'a, 'b> std::io::Read for ChunkRd<'a, 'b> {
    fn read(&mut self, buf: &mut [u8]) -> std::io::Result<usize> {
        let n = std::cmp::min(buf.len(), self.chunk);
        self.inner.read(&mut buf[..n])
    }
}

macro_rules! field_common {
    ($fname:ident, $F:ty) => {
        fn $fname(f: &str, op: &Value) -> Option<Value> {
            let a = || <$F>::from_j(&op["a"]);
            let b = || <$F>::from_j(&op["b"]);
            Some(match f {
                "add" => {
                    let mut x = a();
                    x.add_assign(&b());
                    x.to_j()
                }
                "sub" => {
                    let mut x = a();
                    x.sub_assign(&b());
                    x.to_j()
                }
                "mul" => {
                    let mut x = a();
                    x.mul_assign(&b());
                    x.to_j()
                }
                "neg" => {
                    let mut x = a();
                    x.negate();
                    x.to_j()
                }
                "dbl" => {
                    let mut x = a();
                    x.double();
                    x.to_j()
                }
                "sqr" => {
                    let mut x = a();
                    x.square();
                    x.to_j()
                }
                "inv" => opt_j(a().inverse()),
                "pow" => a().pow(exp_words(op)).to_j(),
                "is_zero" => json!(a().is_zero()),
                "eq" => json!(a() == b()),
                "frob" => {
                    // k is a nat (may be as large as usize::MAX)
                    let k = nat_to_words(&op["k"], 1).unwrap()[0] as usize;
                    let mut x = a();
                    x.frobenius_map(k);
                    x.to_j()
                }
                "zero" => <$F>::zero().to_j(),
                "one" => <$F>::one().to_j(),
                _ => return None,
            })
        }
    };
}

macro_rules! sqrt_common {
    ($fname:ident, $F:ty) => {
        fn $fname(f: &str, op: &Value) -> Option<Value> {
            let a = || <$F>::from_j(&op["a"]);
            Some(match f {
                "sqrt" => opt_j(a().sqrt()),
                "legendre" => leg_j(a().legendre()),
                _ => return None,
            })
        }
    };
}

macro_rules! sgn_common {
    ($fname:ident, $F:ty) => {
        fn $fname(f: &str, op: &Value) -> Option<Value> {
            let a = || <$F>::from_j(&op["a"]);
            Some(match f {
                "sgn0" => sgn_j(a().sgn0()),
                "negate_if" => {
                    let mut x = a();
                    x.negate_if(sgn_of(&op["s"]));
                    x.to_j()
                }
                _ => return None,
            })
        }
    };
}


// concrete instantiations (no generics: see the comment on the macros)
field_common!(fc_fq, Fq);
field_common!(fc_fr, Fr);
field_common!(fc_fq2, Fq2);
field_common!(fc_fq6, Fq6);
field_common!(fc_fq12, Fq12);
sqrt_common!(sq_fq, Fq);
sqrt_common!(sq_fr, Fr);
sqrt_common!(sq_fq2, Fq2);
sgn_common!(sg_fq, Fq);
sgn_common!(sg_fq2, Fq2);

macro_rules! prime_ops {
    ($name:ident, $F:ty, $R:ty, $mkrepr:ident, $nw:expr) => {
        fn $name(f: &str, op: &Value) -> Option<Value> {
            Some(match f {
                "cmp" => ordx_j(&<$F>::from_j(&op["a"]), &<$F>::from_j(&op["b"])),
                "from_repr" => match <$F>::from_repr($mkrepr(&op["n"])) {
                    Ok(x) => json!(["ok", x.to_j()]),
                    Err(_) => json!(["err"]),
                },
                "into_repr" => words_to_nat(<$F>::from_j(&op["a"]).into_repr().as_ref()),
                "is_valid_char" => words_to_nat(<$F>::char().as_ref()),
                "from_str" => match <$F>::from_str(op["s"].as_str().unwrap()) {
                    Some(x) => json!(["some", x.to_j()]),
                    None => json!(["none"]),
                },
                "consts" => json!({
                    "char": words_to_nat(<$F>::char().as_ref()),
                    "num_bits": <$F>::NUM_BITS, "capacity": <$F>::CAPACITY, "s": <$F>::S,
                    "gen": <$F>::multiplicative_generator().to_j(),
                    "rou": <$F>::root_of_unity().to_j()}),
                _ => return None,
            })
        }
    };
}
prime_ops!(fq_ops, Fq, FqRepr, fq_repr, 6);
prime_ops!(fr_ops, Fr, FrRepr, fr_repr, 4);

macro_rules! repr_ops {
    ($name:ident, $R:ty, $mkrepr:ident, $nbytes:expr) => {
        fn $name(f: &str, op: &Value) -> Value {
            let a = || $mkrepr(&op["a"]);
            let b = || $mkrepr(&op["b"]);
            let n = || op["n"].as_u64().unwrap() as u32;
            match f {
                "add_nocarry" => {
                    let mut x = a();
                    x.add_nocarry(&b());
                    words_to_nat(x.as_ref())
                }
                "sub_noborrow" => {
                    let mut x = a();
                    x.sub_noborrow(&b());
                    words_to_nat(x.as_ref())
                }
                "shr" => {
                    let mut x = a();
                    x.shr(n());
                    words_to_nat(x.as_ref())
                }
                "shl" => {
                    let mut x = a();
                    x.shl(n());
                    words_to_nat(x.as_ref())
                }
                "div2" => {
                    let mut x = a();
                    x.div2();
                    words_to_nat(x.as_ref())
                }
                "mul2" => {
                    let mut x = a();
                    x.mul2();
                    words_to_nat(x.as_ref())
                }
                "num_bits" => json!(a().num_bits()),
                "is_odd" => json!(a().is_odd()),
                "is_even" => json!(a().is_even()),
                "is_zero" => json!(a().is_zero()),
                "cmp" => ordx_j(&a(), &b()),
                "eq" => json!(a() == b() && !(a() != b())),
                "write_be" => {
                    let mut v = vec![];
                    a().write_be(&mut v).unwrap();
                    bytes_to_j(&v)
                }
                "write_le" => {
                    let mut v = vec![];
                    a().write_le(&mut v).unwrap();
                    bytes_to_j(&v)
                }
                "read_be" => {
                    let bytes = j_to_bytes(&op["bytes"]);
                    let mut x = <$R>::default();
                    if op.get("dirty").is_some() {
                        // a destination that already holds something (it must be overwritten)
                        for w in x.as_mut().iter_mut() {
                            *w = 0xa5a5_5a5a_ffff_0001;
                        }
                    }
                    let mut cur = std::io::Cursor::new(&bytes[..]);
                    // "reader": n > 0 hands out at most n bytes per read call (pipes, sockets, chained readers)
                    let chunk = op["reader"].as_u64().unwrap_or(0) as usize;
                    let r = if chunk == 0 { x.read_be(&mut cur) } else { x.read_be(&mut ChunkRd { inner: &mut cur, chunk }) };
                    match r {
                        Ok(()) => json!(["ok", words_to_nat(x.as_ref()), cur.position()]),
                        Err(_) => json!(["err"]),
                    }
                }
                "read_le" => {
                    let bytes = j_to_bytes(&op["bytes"]);
                    let mut x = <$R>::default();
                    if op.get("dirty").is_some() {
                        // a destination that already holds something (it must be overwritten)
                        for w in x.as_mut().iter_mut() {
                            *w = 0xa5a5_5a5a_ffff_0001;
                        }
                    }
                    let mut cur = std::io::Cursor::new(&bytes[..]);
                    // "reader": n > 0 hands out at most n bytes per read call (pipes, sockets, chained readers)
                    let chunk = op["reader"].as_u64().unwrap_or(0) as usize;
                    let r = if chunk == 0 { x.read_le(&mut cur) } else { x.read_le(&mut ChunkRd { inner: &mut cur, chunk }) };
                    match r {
                        Ok(()) => json!(["ok", words_to_nat(x.as_ref()), cur.position()]),
                        Err(_) => json!(["err"]),
                    }
                }
                "from_u64" => {
                    let w = nat_to_words(&op["a"], 1).unwrap()[0];
                    words_to_nat(<$R>::from(w).as_ref())
                }
                _ => panic!("unknown repr fn {}", f),
            }
        }
    };
}
repr_ops!(fq_repr_ops, FqRepr, fq_repr, 48);
repr_ops!(fr_repr_ops, FrRepr, fr_repr, 32);

pub fn exec_fp(op: &Value) -> Value {
    let f = op["fn"].as_str().unwrap();
    match op["f"].as_str().unwrap() {
        "Fq" => fc_fq(f, op)
            .or_else(|| if f == "ypair" { Some(ypair_fq(op)) } else { None })
            .or_else(|| sq_fq(f, op))
            .or_else(|| sg_fq(f, op))
            .or_else(|| fq_ops(f, op)),
        "Fr" => fc_fr(f, op)
            .or_else(|| sq_fr(f, op))
            .or_else(|| fr_ops(f, op)),
        x => panic!("unknown prime field {}", x),
    }
    .unwrap_or_else(|| panic!("unknown fp fn {}", f))
}

pub fn exec_repr(op: &Value) -> Value {
    let f = op["fn"].as_str().unwrap();
    match op["f"].as_str().unwrap() {
        "Fq" => fq_repr_ops(f, op),
        "Fr" => fr_repr_ops(f, op),
        x => panic!("unknown prime field {}", x),
    }
}

macro_rules! ypair_impl {
    ($fname:ident, $F:ty) => {
        fn $fname(op: &Value) -> Value {
    let a = <$F>::from_j(&op["a"]);
    let mut n = a;
    n.negate();
    json!({"neg": n.to_j(), "cmp": ord_j(a.cmp(&n)), "s": sgn_j(a.sgn0()), "sn": sgn_j(n.sgn0())})
        }
    };
}
ypair_impl!(ypair_fq, Fq);
ypair_impl!(ypair_fq2, Fq2);

fn fq2_ops(f: &str, op: &Value) -> Option<Value> {
    let a = || Fq2::from_j(&op["a"]);
    Some(match f {
        "ypair" => ypair_fq2(op),
        "mul_by_nonresidue" => {
            let mut x = a();
            x.mul_by_nonresidue();
            x.to_j()
        }
        "norm" => a().norm().to_j(),
        // sqrt of a^2 (a square by construction); logs the squared input too
        "sqrt_of_square" => {
            let mut x = a();
            x.square();
            json!({"sq": x.to_j(), "root": opt_j(x.sqrt()), "leg": leg_j(x.legendre())})
        }
        "cmp" => ordx_j(&a(), &Fq2::from_j(&op["b"])),
        _ => return None,
    })
}
fn fq6_ops(f: &str, op: &Value) -> Option<Value> {
    let a = || Fq6::from_j(&op["a"]);
    Some(match f {
        "mul_by_nonresidue" => {
            let mut x = a();
            x.mul_by_nonresidue();
            x.to_j()
        }
        "mul_by_1" => {
            let mut x = a();
            x.mul_by_1(&Fq2::from_j(&op["c1"]));
            x.to_j()
        }
        "mul_by_01" => {
            let mut x = a();
            x.mul_by_01(&Fq2::from_j(&op["c0"]), &Fq2::from_j(&op["c1"]));
            x.to_j()
        }
        _ => return None,
    })
}
fn fq12_ops(f: &str, op: &Value) -> Option<Value> {
    let a = || Fq12::from_j(&op["a"]);
    Some(match f {
        "conj" => {
            let mut x = a();
            x.conjugate();
            x.to_j()
        }
        "mul_by_014" => {
            let mut x = a();
            x.mul_by_014(
                &Fq2::from_j(&op["c0"]),
                &Fq2::from_j(&op["c1"]),
                &Fq2::from_j(&op["c4"]),
            );
            x.to_j()
        }
        _ => return None,
    })
}

pub fn exec_ext(op: &Value) -> Value {
    let f = op["fn"].as_str().unwrap();
    match op["f"].as_str().unwrap() {
        "Fq2" => fc_fq2(f, op)
            .or_else(|| sq_fq2(f, op))
            .or_else(|| sg_fq2(f, op))
            .or_else(|| fq2_ops(f, op)),
        "Fq6" => fc_fq6(f, op).or_else(|| fq6_ops(f, op)),
        "Fq12" => fc_fq12(f, op).or_else(|| fq12_ops(f, op)),
        x => panic!("unknown extension field {}", x),
    }
    .unwrap_or_else(|| panic!("unknown ext fn {}", f))
}
