//! Conformance harness: executes operation scripts (ndjson, one operation per
//! line, produced by TLC from the specification or by the seeded workload
//! generators in `wl`) against the working tree of pairing-plus and writes the
//! same lines back with the library's raw result under "out".  It contains no
//! expected values; TLC judges every line against the TLA+ specification.
extern crate digest;
extern crate ff_zeroize as ff;
extern crate pairing_plus as pairing;
extern crate rand_core;
extern crate rand_xorshift;
extern crate serde_json;
extern crate sha2;
extern crate sha3;

mod j;
mod ops_curve;
mod ops_field;
mod ops_hash;
mod ops_misc;
mod wl;
mod wl_enc;
mod wl_hash;
mod wl_pair;
mod wl_conc;

use serde_json::{json, Value};
use std::fs::File;
use std::io::{BufRead, BufReader, BufWriter, Write};
use std::panic::{catch_unwind, AssertUnwindSafe};

pub struct State {
    pub curve: ops_curve::CurveState,
    pub misc: ops_misc::MiscState,
}
impl State {
    pub fn new() -> Self {
        State {
            curve: ops_curve::CurveState::new(),
            misc: ops_misc::MiscState::new(),
        }
    }
}

fn dispatch(st: &mut State, op: &Value) -> Value {
    let g = op["g"].as_str().unwrap_or("");
    match op["op"].as_str().expect("op") {
        "fp" => ops_field::exec_fp(op),
        "repr" => ops_field::exec_repr(op),
        "ext" => ops_field::exec_ext(op),
        "cm" => match g {
            "G1" => ops_curve::exec_cm_g1(&mut st.curve.g1, op),
            "G2" => ops_curve::exec_cm_g2(&mut st.curve.g2, op),
            _ => panic!("bad group"),
        },
        "smul" => match g {
            "G1" => ops_curve::exec_smul_g1(op),
            "G2" => ops_curve::exec_smul_g2(op),
            _ => panic!("bad group"),
        },
        "msm" => match g {
            "G1" => ops_curve::exec_msm_g1(op),
            "G2" => ops_curve::exec_msm_g2(op),
            _ => panic!("bad group"),
        },
        "msml" => match g {
            "G1" => ops_curve::exec_msml_g1(op),
            "G2" => ops_curve::exec_msml_g2(op),
            _ => panic!("bad group"),
        },
        "xmd" | "xof" | "h2f" | "okm" | "h2c" => ops_hash::exec_hash(op),
        _ => ops_misc::exec_misc(&mut st.misc, op),
    }
}

/// execute one operation; a panic inside the library is data, not a failure
pub fn exec(st: &mut State, op: &Value) -> Value {
    let mut ev = op.clone();
    let mut panicked = false;
    let out = match catch_unwind(AssertUnwindSafe(|| dispatch(st, op))) {
        Ok(v) => v,
        Err(e) => {
            panicked = true;
            let msg = if let Some(s) = e.downcast_ref::<&str>() {
                s.to_string()
            } else if let Some(s) = e.downcast_ref::<String>() {
                s.clone()
            } else {
                "panic".to_string()
            };
            json!(msg)
        }
    };
    ev.as_object_mut().unwrap().insert("out".into(), out);
    ev.as_object_mut().unwrap().insert("panic".into(), json!(panicked));
    ev
}

pub fn run_script(ops: &[Value], out_path: &str) {
    // a session whose first operation says so runs on a thread of its own (nothing was called on it
    // before: whatever the library initialises lazily per thread is initialised by THIS session)
    if ops.first().map_or(false, |o| o.get("fresh_thread").is_some()) && std::env::var("VERIF_NESTED").is_err() {
        let ops2: Vec<Value> = ops.iter().map(|o| { let mut o = o.clone(); o.as_object_mut().unwrap().remove("fresh_thread"); o }).collect();
        let path = out_path.to_string();
        std::thread::Builder::new().stack_size(64 << 20).spawn(move || run_script_here(&ops2, &path)).unwrap().join().unwrap();
        return;
    }
    run_script_here(ops, out_path)
}

fn run_script_here(ops: &[Value], out_path: &str) {
    let mut st = State::new();
    let mut w = BufWriter::new(File::create(out_path).expect("create trace"));
    for op in ops {
        let ev = exec(&mut st, op);
        serde_json::to_writer(&mut w, &ev).unwrap();
        w.write_all(b"\n").unwrap();
    }
    w.flush().unwrap();
}

fn njobs() -> usize {
    std::env::var("VERIF_JOBS").ok().and_then(|s| s.parse().ok()).unwrap_or(16)
}

/// sessions are independent (each has its own State): run them on a pool of threads
fn par_jobs(jobs: Vec<(Vec<Value>, String)>) {
    let q = std::sync::Arc::new(std::sync::Mutex::new(jobs));
    let mut hs = vec![];
    for _ in 0..njobs() {
        let q = q.clone();
        hs.push(std::thread::Builder::new().stack_size(64 << 20).spawn(move || loop {
            let job = q.lock().unwrap().pop();
            match job {
                Some((ops, path)) => run_script(&ops, &path),
                None => break,
            }
        }).unwrap());
    }
    for h in hs {
        h.join().unwrap();
    }
}

fn par_run(sessions: Vec<Vec<Value>>, out: &str, name: &str) {
    let jobs = sessions
        .into_iter()
        .enumerate()
        .map(|(k, ops)| (ops, format!("{}/wl-{}-{:03}.trace.ndjson", out, name, k)))
        .collect();
    par_jobs(jobs);
}

fn read_script(path: &str) -> Vec<Value> {
    let f = BufReader::new(File::open(path).expect("open script"));
    f.lines()
        .map(|l| l.unwrap())
        .filter(|l| !l.trim().is_empty())
        .map(|l| serde_json::from_str(&l).expect("script line"))
        .collect()
}

fn main() {
    std::panic::set_hook(Box::new(|_| {}));
    let args: Vec<String> = std::env::args().collect();
    let mut out = String::from(".");
    let mut seed: u64 = 1;
    let mut tier = String::from("quick");
    let mut pos = vec![];
    let mut i = 1;
    while i < args.len() {
        match args[i].as_str() {
            "--out" => {
                out = args[i + 1].clone();
                i += 2;
            }
            "--seed" => {
                seed = args[i + 1].parse().expect("seed");
                i += 2;
            }
            "--tier" => {
                tier = args[i + 1].clone();
                i += 2;
            }
            _ => {
                pos.push(args[i].clone());
                i += 1;
            }
        }
    }
    if pos.is_empty() {
        eprintln!("usage: harness run <script>... | wl <name> [--seed N] [--tier T] [--out DIR]");
        std::process::exit(2);
    }
    std::fs::create_dir_all(&out).unwrap();
    match pos[0].as_str() {
        // run <script>...: trace file next to --out, same base name
        "run" => {
            let jobs: Vec<(Vec<Value>, String)> = pos[1..]
                .iter()
                .map(|s| {
                    let base = std::path::Path::new(s)
                        .file_name()
                        .unwrap()
                        .to_str()
                        .unwrap()
                        .replace(".script", ".trace");
                    (read_script(s), format!("{}/{}", out, base))
                })
                .collect();
            par_jobs(jobs);
        }
        // wl <name>: seeded workload generator; writes scripts (for the record) and traces
        "wl" => {
            let sessions = wl::generate(&pos[1], seed, &tier);
            let n = sessions.len();
            par_run(sessions, &out, &pos[1]);
            println!("{{\"sessions\": {}}}", n);
        }
        "conc" => wl_conc::run(seed, &tier, &out),
        x => {
            eprintln!("unknown command {}", x);
            std::process::exit(2);
        }
    }
}
