//! JSON transport of library values.  Nothing here computes with library
//! arithmetic: field elements are read out through `into_repr` (the library's
//! own canonical-integer view, which C08 validates separately) and written as
//! little-endian arrays of 16-bit limbs without trailing zero limb.
use ff::{PrimeField, PrimeFieldRepr};
use pairing::bls12_381::{Fq, Fq12, Fq2, Fq6, FqRepr, Fr, FrRepr, G1Affine, G2Affine, G1, G2};
use pairing::{CurveAffine, CurveProjective};
use serde_json::{json, Value};

pub fn words_to_nat(w: &[u64]) -> Value {
    let mut limbs: Vec<u64> = Vec::with_capacity(w.len() * 4);
    for x in w {
        for k in 0..4 {
            limbs.push((x >> (16 * k)) & 0xffff);
        }
    }
    while let Some(&0) = limbs.last() {
        limbs.pop();
    }
    Value::Array(limbs.into_iter().map(|l| json!(l)).collect())
}

/// little-endian 16-bit limbs -> n 64-bit words; None if it does not fit
pub fn nat_to_words(v: &Value, n: usize) -> Option<Vec<u64>> {
    let a = v.as_array()?;
    let mut w = vec![0u64; n];
    for (i, l) in a.iter().enumerate() {
        let l = l.as_u64()?;
        if l == 0 {
            continue;
        }
        if i / 4 >= n {
            return None;
        }
        w[i / 4] |= l << (16 * (i % 4));
    }
    Some(w)
}

pub fn bytes_to_j(b: &[u8]) -> Value {
    Value::Array(b.iter().map(|x| json!(*x)).collect())
}
pub fn j_to_bytes(v: &Value) -> Vec<u8> {
    v.as_array()
        .expect("bytes array")
        .iter()
        .map(|x| x.as_u64().expect("byte") as u8)
        .collect()
}

pub fn fq_repr(v: &Value) -> FqRepr {
    let w = nat_to_words(v, 6).expect("FqRepr does not fit 384 bits");
    FqRepr([w[0], w[1], w[2], w[3], w[4], w[5]])
}
pub fn fr_repr(v: &Value) -> FrRepr {
    let w = nat_to_words(v, 4).expect("FrRepr does not fit 256 bits");
    FrRepr([w[0], w[1], w[2], w[3]])
}

pub trait J: Sized {
    fn to_j(&self) -> Value;
    fn from_j(v: &Value) -> Self;
}

impl J for Fq {
    fn to_j(&self) -> Value {
        words_to_nat(self.into_repr().as_ref())
    }
    fn from_j(v: &Value) -> Self {
        Fq::from_repr(fq_repr(v)).expect("Fq input not reduced")
    }
}
impl J for Fr {
    fn to_j(&self) -> Value {
        words_to_nat(self.into_repr().as_ref())
    }
    fn from_j(v: &Value) -> Self {
        Fr::from_repr(fr_repr(v)).expect("Fr input not reduced")
    }
}
impl J for Fq2 {
    fn to_j(&self) -> Value {
        json!([self.c0.to_j(), self.c1.to_j()])
    }
    fn from_j(v: &Value) -> Self {
        Fq2 {
            c0: Fq::from_j(&v[0]),
            c1: Fq::from_j(&v[1]),
        }
    }
}
impl J for Fq6 {
    fn to_j(&self) -> Value {
        json!([self.c0.to_j(), self.c1.to_j(), self.c2.to_j()])
    }
    fn from_j(v: &Value) -> Self {
        Fq6 {
            c0: Fq2::from_j(&v[0]),
            c1: Fq2::from_j(&v[1]),
            c2: Fq2::from_j(&v[2]),
        }
    }
}
impl J for Fq12 {
    fn to_j(&self) -> Value {
        json!([self.c0.to_j(), self.c1.to_j()])
    }
    fn from_j(v: &Value) -> Self {
        Fq12 {
            c0: Fq6::from_j(&v[0]),
            c1: Fq6::from_j(&v[1]),
        }
    }
}

/// Jacobian triple [X, Y, Z], raw coordinates
pub fn proj_to_j<G: CurveProjective>(p: &G) -> Value
where
    G::Base: J,
{
    let (x, y, z) = p.as_tuple();
    json!([x.to_j(), y.to_j(), z.to_j()])
}
/// affine record [x, y, infinity], raw
pub fn aff_to_j<A: CurveAffine>(p: &A) -> Value
where
    A::Base: J,
{
    let (x, y) = p.as_tuple();
    json!([x.to_j(), y.to_j(), p.is_zero()])
}

pub trait Grp: CurveProjective {
    const NAME: &'static str;
    fn raw(x: Self::Base, y: Self::Base, z: Self::Base) -> Self;
    fn raw_aff(x: Self::Base, y: Self::Base, inf: bool) -> Self::Affine;
}
impl Grp for G1 {
    const NAME: &'static str = "G1";
    fn raw(x: Fq, y: Fq, z: Fq) -> G1 {
        unsafe { pairing::bls12_381::transmute::g1_projective(x, y, z) }
    }
    fn raw_aff(x: Fq, y: Fq, inf: bool) -> G1Affine {
        unsafe { pairing::bls12_381::transmute::g1_affine(x, y, inf) }
    }
}
impl Grp for G2 {
    const NAME: &'static str = "G2";
    fn raw(x: Fq2, y: Fq2, z: Fq2) -> G2 {
        unsafe { pairing::bls12_381::transmute::g2_projective(x, y, z) }
    }
    fn raw_aff(x: Fq2, y: Fq2, inf: bool) -> G2Affine {
        unsafe { pairing::bls12_381::transmute::g2_affine(x, y, inf) }
    }
}

pub fn j_to_proj<G: Grp>(v: &Value) -> G
where
    G::Base: J,
{
    G::raw(
        G::Base::from_j(&v[0]),
        G::Base::from_j(&v[1]),
        G::Base::from_j(&v[2]),
    )
}
pub fn j_to_aff<G: Grp>(v: &Value) -> G::Affine
where
    G::Base: J,
{
    G::raw_aff(
        G::Base::from_j(&v[0]),
        G::Base::from_j(&v[1]),
        v[2].as_bool().expect("inf flag"),
    )
}
