//! Workloads for RFC 9380: expand_message / hash_to_field (C13), hash_to_curve (C06),
//! map_to_curve (C14), SWU (C15), isogenies (C16), cofactor clearing (C17).
use crate::j::*;
use crate::wl::*;
use ff::Field;
use pairing::bls12_381::verif::OSSWUMap;
use pairing::bls12_381::{Fr, G1, G2};
use pairing::{CurveAffine, CurveProjective};
use serde_json::{json, Value};

const XS: [&str; 4] = ["xmd-sha256", "xmd-sha512", "xof-shake128", "xof-shake256"];
/// for the byte-level property also other Merkle-Damgard hashes (digest sizes 28 and 48)
const XS13: [&str; 6] = ["xmd-sha256", "xmd-sha512", "xof-shake128", "xof-shake256", "xmd-sha224", "xmd-sha384"];

fn chunk(sessions: &mut Vec<Vec<Value>>, ops: &mut Vec<Value>, n: usize) {
    if ops.len() >= n {
        sessions.push(std::mem::replace(ops, vec![]));
    }
}

pub fn wl_c13(seed: u64, tier: &str) -> Vec<Vec<Value>> {
    let thorough = tier == "thorough";
    let mut r = Rng(seed.wrapping_mul(1313) ^ 13);
    let mut sessions = vec![];
    let mut ops = vec![];
    let msg_lens = [0usize, 1, 31, 32, 55, 56, 63, 64, 65, 119, 127, 128, 129, 300];
    let dst_lens = [0usize, 1, 16, 43, 255];
    for x in XS13.iter() {
        let is_xmd = x.starts_with("xmd");
        let b = match *x { "xmd-sha512" => 64, "xmd-sha224" => 28, "xmd-sha384" => 48, _ => 32 };
        let mut lens: Vec<usize> = vec![0, 1, 31, 32, 33, 63, 64, 65, 127, 128, 129, 200, 1000];
        if is_xmd {
            lens.extend_from_slice(&[255 * b - 1, 255 * b, 255 * b + 1, 256 * b, 254 * b + 1]);
        } else {
            lens.extend_from_slice(&[8160, 8161, 16321, 65535]);
        }
        if *x == "xmd-sha256" {
            lens.push(16320);
            lens.push(65535);
        }
        for (i, len) in lens.iter().enumerate() {
            let ml = msg_lens[(i * 3 + x.len()) % msg_lens.len()];
            let dl = dst_lens[i % dst_lens.len()];
            ops.push(json!({"op": if is_xmd {"xmd"} else {"xof"}, "x": x, "msg": bytes_to_j(&r.bytes(ml)),
                            "dst": bytes_to_j(&r.bytes(dl)), "len": len, "cls": format!("len{}", len)}));
            chunk(&mut sessions, &mut ops, 6);
        }
        // requests far beyond 255 blocks must abort as well (XMD only: an XOF would try to allocate them)
        if is_xmd {
            for big in [u64::MAX, u64::MAX - 1, u64::MAX - (b as u64 - 2), u64::MAX - (b as u64 - 1), u64::MAX - b as u64,
                        1u64 << 63, 1u64 << 32, (1u64 << 32) + 5, 65536, 1u64 << 16 | 3].iter() {
                ops.push(json!({"op": "xmd", "x": x, "msg": bytes_to_j(&r.bytes(3)), "dst": bytes_to_j(&r.bytes(9)),
                                "lenbig": nat(&vec![*big]), "cls": "huge-length"}));
                chunk(&mut sessions, &mut ops, 6);
            }
        }
        // EVERY tag length 0..=255 and every message length 0..=260 (fixed small output): buffers sized
        // for "typical" tags / messages, off-by-one at any internal boundary
        {
            let mut ops2 = vec![];
            let step = if thorough { 1 } else { 1 };
            for dl in (0..=255usize).step_by(step) {
                ops2.push(json!({"op": if is_xmd {"xmd"} else {"xof"}, "x": x, "msg": bytes_to_j(&r.bytes(3)),
                                 "dst": bytes_to_j(&r.bytes(dl)), "len": 32 + (dl % 2) * 16, "cls": "every-tag-length"}));
                if ops2.len() >= 32 {
                    sessions.push(std::mem::replace(&mut ops2, vec![]));
                }
            }
            for ml in 0..=260usize {
                ops2.push(json!({"op": if is_xmd {"xmd"} else {"xof"}, "x": x, "msg": bytes_to_j(&r.bytes(ml)),
                                 "dst": bytes_to_j(&r.bytes(16)), "len": 32, "cls": "every-message-length"}));
                if ops2.len() >= 32 {
                    sessions.push(std::mem::replace(&mut ops2, vec![]));
                }
            }
            sessions.push(ops2);
        }
        // messages longer than any length bound of the construction (only the OUTPUT length and the
        // tag are bounded; the message is not)
        {
            let longs = [65535usize, 65536, 65537, 100_000, (1 << 17) + 1];
            let k = x.len() + XS13.iter().position(|y| y == x).unwrap();
            for (i, ml) in longs.iter().enumerate() {
                if !thorough && i != k % longs.len() && i != (k + 2) % longs.len() {
                    continue;
                }
                ops.push(json!({"op": if is_xmd {"xmd"} else {"xof"}, "x": x, "msg": bytes_to_j(&r.bytes(*ml)),
                                "dst": bytes_to_j(&r.bytes(17)), "len": 48, "cls": "long-message"}));
                chunk(&mut sessions, &mut ops, 2);
            }
        }
        // message and dst lengths across block boundaries
        for ml in msg_lens.iter() {
            for dl in dst_lens.iter() {
                if !thorough && (ml + dl) % 3 != 0 {
                    continue;
                }
                let len = *r.pick(&[32usize, 48, 64, 96, 128, 192]);
                ops.push(json!({"op": if is_xmd {"xmd"} else {"xof"}, "x": x, "msg": bytes_to_j(&r.bytes(*ml)),
                                "dst": bytes_to_j(&r.bytes(*dl)), "len": len, "cls": "msg-dst-lengths"}));
                chunk(&mut sessions, &mut ops, 12);
            }
        }
        // element counts whose byte length wraps around the machine word (XMD: must abort like any
        // other request beyond 255 blocks)
        if is_xmd {
            for (f, l) in [("Fq", 64u64), ("Fr", 48), ("Fq2", 128)].iter() {
                let wrap = (u64::MAX / l) + 1; // smallest count with count * L >= 2^64
                let mut counts = vec![wrap, wrap + 1, wrap + 2, wrap.wrapping_mul(2).wrapping_add(1), u64::MAX, u64::MAX / 2 + 1,
                                      (1u64 << 32) + 1];
                if !thorough {
                    counts.truncate(4);
                }
                for c in counts {
                    ops.push(json!({"op": "h2f", "f": f, "x": x, "msg": bytes_to_j(&r.bytes(5)), "dst": bytes_to_j(&r.bytes(11)),
                                    "countbig": nat(&vec![c]), "cls": "huge-count"}));
                    chunk(&mut sessions, &mut ops, 10);
                }
            }
        }
        // the largest element count that fits (XMD: 255 blocks; XOF: 65535 bytes) and its neighbours
        for (f, l) in [("Fq", 64usize), ("Fr", 48), ("Fq2", 128)].iter() {
            let maxc = if is_xmd { 255 * b / l } else { 65535 / l };
            let mut cs = vec![maxc, maxc - 1];
            if is_xmd {
                cs.push(maxc + 1); // beyond 255 blocks: abort
            }
            for c in cs {
                if !thorough && !is_xmd && *f != "Fr" && c != maxc {
                    continue;
                }
                ops.push(json!({"op": "h2f", "f": f, "x": x, "msg": bytes_to_j(&r.bytes(7)), "dst": bytes_to_j(&r.bytes(13)),
                                "count": c, "cls": format!("h2f-{}-max-count", f)}));
                chunk(&mut sessions, &mut ops, 3);
            }
        }
        // hash_to_field for every field and several counts
        for f in ["Fq", "Fr", "Fq2"].iter() {
            for count in [0usize, 1, 2, 5, 11, 40, 127, 128].iter() {
                let ml = *r.pick(&msg_lens);
                let dl = 1 + r.below(60) as usize;
                ops.push(json!({"op": "h2f", "f": f, "x": x, "msg": bytes_to_j(&r.bytes(ml)),
                                "dst": bytes_to_j(&r.bytes(dl)), "count": count, "cls": format!("h2f-{}-{}", f, count)}));
                chunk(&mut sessions, &mut ops, 10);
            }
        }
    }
    sessions.push(std::mem::replace(&mut ops, vec![]));
    // history: identical (msg, dst, byte length) through every expander and every field, back to
    // back on one thread (a result must not depend on what was hashed just before)
    for round in 0..2 {
        let msg = r.bytes(20 + 30 * round);
        let dst = r.bytes(16);
        for x in XS.iter().chain(XS.iter().rev()) {
            let is_xmd = x.starts_with("xmd");
            ops.push(json!({"op": "h2f", "f": "Fq", "x": x, "msg": bytes_to_j(&msg), "dst": bytes_to_j(&dst), "count": 2, "cls": "same-input-other-expander"}));
            ops.push(json!({"op": "h2f", "f": "Fq2", "x": x, "msg": bytes_to_j(&msg), "dst": bytes_to_j(&dst), "count": 1, "cls": "same-input-other-expander"}));
            ops.push(json!({"op": if is_xmd {"xmd"} else {"xof"}, "x": x, "msg": bytes_to_j(&msg), "dst": bytes_to_j(&dst), "len": 128, "cls": "same-input-other-expander"}));
            ops.push(json!({"op": "h2f", "f": "Fr", "x": x, "msg": bytes_to_j(&msg), "dst": bytes_to_j(&dst), "count": 2, "cls": "same-input-other-expander"}));
        }
        sessions.push(std::mem::replace(&mut ops, vec![]));
    }
    // consecutive calls whose (message, tag) pairs concatenate to the same bytes with the boundary in
    // another place, and pairs that differ only in the requested length / count
    for x in XS13.iter() {
        let is_xmd = x.starts_with("xmd");
        let all = r.bytes(40);
        let mut ops2 = vec![];
        for cut in [20usize, 21, 19, 20, 0, 40, 20].iter() {
            let (m, d) = (&all[..*cut], &all[*cut..]);
            ops2.push(json!({"op": "h2f", "f": "Fq", "x": x, "msg": bytes_to_j(m), "dst": bytes_to_j(d), "count": 2, "cls": "shifted-boundary"}));
            ops2.push(json!({"op": if is_xmd {"xmd"} else {"xof"}, "x": x, "msg": bytes_to_j(m), "dst": bytes_to_j(d), "len": 64, "cls": "shifted-boundary"}));
        }
        for (f, c) in [("Fr", 2usize), ("Fr", 3), ("Fq2", 1), ("Fq", 2), ("Fq", 1)].iter() {
            ops2.push(json!({"op": "h2f", "f": f, "x": x, "msg": bytes_to_j(&all[..20]), "dst": bytes_to_j(&all[20..]), "count": c, "cls": "same-input-other-count"}));
        }
        sessions.push(ops2);
    }
    // tags and messages with special content (trailing / leading / embedded zero bytes, ...)
    {
        let pats = content_patterns(&mut r);
        for x in XS13.iter() {
            let is_xmd = x.starts_with("xmd");
            let mut ops2 = vec![];
            for (k, pat) in pats.iter().enumerate() {
                let other = r.bytes(7);
                let f = ["Fq", "Fr", "Fq2"][k % 3];
                ops2.push(json!({"op": "h2f", "f": f, "x": x, "msg": bytes_to_j(&other), "dst": bytes_to_j(pat), "count": 1 + (k % 2), "cls": "tag-content"}));
                ops2.push(json!({"op": if is_xmd {"xmd"} else {"xof"}, "x": x, "msg": bytes_to_j(pat), "dst": bytes_to_j(&other), "len": 48, "cls": "message-content"}));
            }
            sessions.push(ops2);
        }
    }
    // a stand-in hash with structured digests (zero words, all ones, ...): the reduction stage sees blocks
    // of every shape through the real pipeline
    {
        let mut ops2 = vec![];
        for i in 0..(if thorough { 400 } else { 60 }) {
            let ml = r.below(40) as usize;
            let dl = 1 + r.below(30) as usize;
            let f = ["Fq", "Fr", "Fq2"][i % 3];
            ops2.push(json!({"op": "h2f", "f": f, "x": "xmd-toy", "msg": bytes_to_j(&r.bytes(ml)), "dst": bytes_to_j(&r.bytes(dl)),
                             "count": 1 + (i % 3), "cls": "structured-digest"}));
            if i % 5 == 0 {
                ops2.push(json!({"op": "xmd", "x": "xmd-toy", "msg": bytes_to_j(&r.bytes(ml)), "dst": bytes_to_j(&r.bytes(dl)), "len": 96, "cls": "structured-digest"}));
            }
            if ops2.len() >= 20 {
                sessions.push(std::mem::replace(&mut ops2, vec![]));
            }
        }
        sessions.push(ops2);
    }
    // from_okm / from_ro on chosen blocks
    let fq = fq_info();
    let fr = fr_info();
    for (f, l, info) in [("Fq", 64usize, &fq), ("Fr", 48, &fr), ("Fq2", 128, &fq)].iter() {
        let mut blocks: Vec<Vec<u8>> = vec![vec![0u8; *l], vec![0xffu8; *l]];
        // p, p-1, p+1 right-aligned; p in the high half; single bits at the split points
        let half = if *f == "Fr" { 24 } else { 32 };
        for v in [info.p.clone(), w_sub_small(&info.p, 1), w_add_small(&info.p, 1)].iter() {
            let mut be: Vec<u8> = vec![];
            for x in v.iter().rev() {
                be.extend_from_slice(&x.to_be_bytes());
            }
            let mut b = vec![0u8; *l];
            let n = be.len();
            b[*l - n..].copy_from_slice(&be);
            blocks.push(b.clone());
            if *f != "Fq2" {
                // shifted into the high half (multiplied by 2^(8*half))
                let mut h = vec![0u8; *l];
                if n <= *l - half {
                    h[*l - half - n..*l - half].copy_from_slice(&be);
                    blocks.push(h);
                }
            } else {
                let mut h = vec![0u8; *l];
                h[64 - n..64].copy_from_slice(&be);
                blocks.push(h);
            }
        }
        for bit in [0usize, 8 * half - 1, 8 * half, 8 * half + 1, 8 * *l - 1, 255, 256, 257, 191, 192, 193, 383, 384].iter() {
            if *bit < 8 * *l {
                let mut b = vec![0u8; *l];
                b[*l - 1 - bit / 8] = 1 << (bit % 8);
                blocks.push(b);
            }
        }
        for _ in 0..(if thorough { 400 } else { 40 }) {
            blocks.push(r.bytes(*l));
        }
        for b in blocks {
            ops.push(json!({"op": "okm", "f": f, "bytes": bytes_to_j(&b), "cls": "okm"}));
            chunk(&mut sessions, &mut ops, 60);
        }
    }
    sessions.push(ops);
    sessions.retain(|s| !s.is_empty());
    sessions
}


/// tags / messages whose *content* (not length) is special: trailing, leading, embedded and all-zero
/// bytes, high bits, white space - a tag is an opaque byte string and every byte of it counts
fn content_patterns(r: &mut Rng) -> Vec<Vec<u8>> {
    let a = b"QUUX-V01-CS02".to_vec();
    let mut v: Vec<Vec<u8>> = vec![a.clone()];
    for tail in [&[0u8][..], &[0, 0], &[0x80], &[0xff], &[b' '], &[b'\n'], &[0, 1]].iter() {
        let mut x = a.clone();
        x.extend_from_slice(tail);
        v.push(x);
    }
    let mut lead = vec![0u8];
    lead.extend_from_slice(&a);
    v.push(lead);
    let mut mid = a.clone();
    mid[5] = 0;
    v.push(mid);
    v.push(vec![0u8]);
    v.push(vec![0u8; 8]);
    v.push(vec![0xffu8; 8]);
    let mut rz = r.bytes(12);
    rz[11] = 0;
    v.push(rz);
    let mut rz2 = r.bytes(12);
    rz2[0] = 0;
    v.push(rz2);
    v
}

pub fn wl_c06(seed: u64, tier: &str) -> Vec<Vec<Value>> {
    let thorough = tier == "thorough";
    let mut r = Rng(seed.wrapping_mul(606) ^ 6);
    let mut sessions = vec![];
    let msg_lens = [0usize, 1, 55, 56, 63, 64, 65, 119, 127, 128, 129, 1000];
    let dst_lens = [0usize, 1, 16, 255];
    for g in ["G1", "G2"].iter() {
        let mut ops = vec![];
        let mut i = 0;
        for x in XS.iter() {
            for mode in ["ro", "nu"].iter() {
                let reps = if thorough { 12 } else if *g == "G1" { 3 } else { 1 };
                for _ in 0..reps {
                    let ml = msg_lens[i % msg_lens.len()];
                    let dl = dst_lens[(i / 2) % dst_lens.len()];
                    i += 1;
                    let msg = r.bytes(ml);
                    let dst = r.bytes(dl);
                    let op = json!({"op": "h2c", "g": g, "x": x, "mode": mode, "msg": bytes_to_j(&msg),
                                    "dst": bytes_to_j(&dst), "cls": format!("{}-{}", x, mode)});
                    ops.push(op.clone());
                    if i % 4 == 0 {
                        ops.push(op); // determinism: the same call again
                    }
                    chunk(&mut sessions, &mut ops, if *g == "G1" { 3 } else { 1 });
                }
            }
        }
        sessions.push(ops);
        // every tag length once, rotating through the suites and modes (G1: all; G2: every fourth)
        {
            let mut ops2 = vec![];
            for dl in 0..=255usize {
                for (k, x) in XS.iter().enumerate() {
                    // G1: every suite at every length; G2 (quick): one suite per length, every other length
                    if *g == "G2" && !thorough && (dl % 2 != 0 || k != (dl / 2) % XS.len()) {
                        continue;
                    }
                    let mode = if (dl + k) % 3 == 0 { "ro" } else { "nu" };
                    ops2.push(json!({"op": "h2c", "g": g, "x": x, "mode": mode, "msg": bytes_to_j(&r.bytes(4)),
                                     "dst": bytes_to_j(&r.bytes(dl)), "cls": "every-tag-length"}));
                    if ops2.len() >= (if *g == "G1" { 8 } else { 2 }) {
                        sessions.push(std::mem::replace(&mut ops2, vec![]));
                    }
                }
            }
            sessions.push(ops2);
        }
        // long messages (beyond 2^16 bytes) through every suite
        let longs = [65536usize, 100_000, 65535, (1 << 17) + 1];
        for (k, x) in XS.iter().enumerate() {
            for (i, ml) in longs.iter().enumerate() {
                if !thorough && i != k % 2 {
                    continue;
                }
                let mode = if (i + k) % 2 == 0 { "nu" } else { "ro" };
                sessions.push(vec![json!({"op": "h2c", "g": g, "x": x, "mode": mode, "msg": bytes_to_j(&r.bytes(*ml)),
                                          "dst": bytes_to_j(&r.bytes(20)), "cls": "long-message"})]);
            }
        }
        // a stand-in hash with structured digests through the whole pipeline
        {
            let n = if thorough { 60 } else if *g == "G1" { 24 } else { 6 };
            let mut ops2 = vec![];
            for i in 0..n {
                let ml = r.below(30) as usize;
                ops2.push(json!({"op": "h2c", "g": g, "x": "xmd-toy", "mode": if i % 2 == 0 { "ro" } else { "nu" },
                                 "msg": bytes_to_j(&r.bytes(ml)), "dst": bytes_to_j(&r.bytes(12)), "cls": "structured-digest"}));
                if ops2.len() >= (if *g == "G1" { 6 } else { 2 }) {
                    sessions.push(std::mem::replace(&mut ops2, vec![]));
                }
            }
            sessions.push(ops2);
        }
        // consecutive calls whose message / tag boundary moves (same concatenation)
        {
            let all = r.bytes(30);
            for x in XS.iter() {
                let mut ops2 = vec![];
                for cut in [15usize, 16, 15, 14].iter() {
                    ops2.push(json!({"op": "h2c", "g": g, "x": x, "mode": "nu", "msg": bytes_to_j(&all[..*cut]), "dst": bytes_to_j(&all[*cut..]), "cls": "shifted-boundary"}));
                }
                if *g == "G1" || thorough {
                    sessions.push(ops2);
                } else {
                    ops2.truncate(2);
                    sessions.push(ops2);
                }
            }
        }
        // tags and messages with special content (trailing / leading / embedded zero bytes, ...)
        {
            let pats = content_patterns(&mut r);
            let mut ops2 = vec![];
            for (k, pat) in pats.iter().enumerate() {
                if *g == "G2" && !thorough && k % 2 == 1 && k > 3 {
                    continue;
                }
                let x = XS[k % XS.len()];
                let mode = if k % 2 == 0 { "ro" } else { "nu" };
                let other = r.bytes(9);
                ops2.push(json!({"op": "h2c", "g": g, "x": x, "mode": mode, "msg": bytes_to_j(&other), "dst": bytes_to_j(pat), "cls": "tag-content"}));
                if *g == "G1" || thorough {
                    ops2.push(json!({"op": "h2c", "g": g, "x": XS[(k + 1) % XS.len()], "mode": mode, "msg": bytes_to_j(pat), "dst": bytes_to_j(&other), "cls": "message-content"}));
                }
                if ops2.len() >= (if *g == "G1" { 6 } else { 2 }) {
                    sessions.push(std::mem::replace(&mut ops2, vec![]));
                }
            }
            sessions.push(ops2);
        }
        // the same (msg, dst) through every suite back to back (history independence)
        let msg = r.bytes(33);
        let dst = r.bytes(20);
        let mut ops = vec![];
        for x in XS.iter() {
            ops.push(json!({"op": "h2c", "g": g, "x": x, "mode": "nu", "msg": bytes_to_j(&msg), "dst": bytes_to_j(&dst), "cls": "same-input-other-suite"}));
        }
        sessions.push(ops);
    }
    sessions.retain(|s| !s.is_empty());
    sessions
}

fn elem(r: &mut Rng, g: &str) -> Value {
    let fq = fq_info();
    if g == "G1" { nat(&rand_elem(r, &fq)) } else { rand_f2(r, &fq) }
}
fn neg_elem(g: &str, v: &Value) -> Value {
    // -u as input preparation, through the library's negate
    use pairing::bls12_381::{Fq, Fq2};
    if g == "G1" {
        let mut x = Fq::from_j(v);
        x.negate();
        x.to_j()
    } else {
        let mut x = Fq2::from_j(v);
        x.negate();
        x.to_j()
    }
}
fn special_elems(r: &mut Rng, g: &str) -> Vec<(Value, &'static str)> {
    let fq = fq_info();
    let z = vec![0u64; 6];
    let one = w_add_small(&z, 1);
    let m1 = w_sub_small(&fq.p, 1);
    if g == "G1" {
        vec![(nat(&z), "zero"), (nat(&one), "one"), (nat(&m1), "minus-one"), (nat(&w_add_small(&z, 2)), "two")]
    } else {
        vec![
            (f2(&z, &z), "zero"), (f2(&one, &z), "one"), (f2(&m1, &z), "minus-one"), (f2(&z, &one), "u"),
            (f2(&z, &m1), "minus-u"), (f2(&one, &one), "1+u"),
            (f2(&rand_elem(r, &fq), &z), "real"), (f2(&z, &rand_elem(r, &fq)), "imaginary"),
        ]
    }
}

pub fn wl_c15(seed: u64, tier: &str) -> Vec<Vec<Value>> {
    let thorough = tier == "thorough";
    let mut r = Rng(seed.wrapping_mul(1515) ^ 15);
    let mut sessions = vec![];
    for g in ["G1", "G2"].iter() {
        let mut ops = vec![];
        for (t, cls) in special_elems(&mut r, g) {
            ops.push(json!({"op": "swu", "g": g, "t": t, "cls": cls}));
        }
        // the whole boundary catalogue of the base field as inputs (limb boundaries of the integer
        // representation matter to sgn0(t), the one place where the map looks at t as an integer)
        let cat: Vec<Value> = if *g == "G1" { catalogue(&fq_info()).iter().map(|w| nat(w)).collect() } else { cat_f2(&mut r, &fq_info()) };
        for t in cat.iter() {
            ops.push(json!({"op": "swu", "g": g, "t": t, "cls": "catalogue"}));
            if r.below(3) == 0 {
                ops.push(json!({"op": "swu", "g": g, "t": neg_elem(g, t), "cls": "catalogue-negated"}));
            }
            chunk(&mut sessions, &mut ops, if *g == "G1" { 40 } else { 12 });
        }
        let n = if thorough { 3000 } else if *g == "G1" { 300 } else { 120 };
        for _ in 0..n {
            let t = elem(&mut r, g);
            ops.push(json!({"op": "swu", "g": g, "t": t, "cls": "rand"}));
            // t and -t: same x, opposite y
            if r.below(4) == 0 {
                ops.push(json!({"op": "swu", "g": g, "t": neg_elem(g, &t), "cls": "negated"}));
            }
            chunk(&mut sessions, &mut ops, if *g == "G1" { 40 } else { 12 });
        }
        sessions.push(ops);
    }
    sessions.retain(|s| !s.is_empty());
    sessions
}

fn swu_point<G: Grp + OSSWUMap>(r: &mut Rng) -> G
where
    G::Base: J,
{
    let t = elem(r, G::NAME);
    G::osswu_map(&G::Base::from_j(&t))
}

fn rescale<G: Grp>(p: &G, lam: &G::Base) -> G {
    let (x, y, z) = p.as_tuple();
    let mut l2 = *lam;
    l2.square();
    let mut l3 = l2;
    l3.mul_assign(lam);
    let (mut nx, mut ny, mut nz) = (*x, *y, *z);
    nx.mul_assign(&l2);
    ny.mul_assign(&l3);
    nz.mul_assign(lam);
    G::raw(nx, ny, nz)
}

fn c16_group<G: Grp + OSSWUMap>(r: &mut Rng, thorough: bool, sessions: &mut Vec<Vec<Value>>)
where
    G::Base: J,
    G::Affine: CurveAffine<Projective = G, Base = G::Base>,
{
    let g = G::NAME;
    let per = if g == "G1" { 30 } else { 20 };
    let mut ops = vec![];
    let n = if thorough { 1500 } else if g == "G1" { 150 } else { 100 };
    for i in 0..n {
        let p: G = swu_point::<G>(r);
        ops.push(json!({"op": "iso", "g": g, "p": proj_to_j(&p), "cls": "swu-image"}));
        if i % 3 == 0 {
            let mut q = p;
            q.negate();
            ops.push(json!({"op": "iso", "g": g, "p": proj_to_j(&q), "cls": "negative"}));
        }
        if i % 4 == 0 {
            let lam = G::Base::from_j(&elem(r, g));
            ops.push(json!({"op": "iso", "g": g, "p": proj_to_j(&rescale(&p, &lam)), "cls": "rescaled"}));
        }
        if i % 6 == 2 {
            // representatives with a special Z: -1 (Z^2 = 1), 2, -2, on the normalized point
            let a = p.into_affine().into_projective();
            let mut m1 = G::Base::one();
            m1.negate();
            let mut two = G::Base::one();
            two.double();
            let mut m2 = two;
            m2.negate();
            for (lam, cls) in [(m1, "Z=-1"), (two, "Z=2"), (m2, "Z=-2")].iter() {
                ops.push(json!({"op": "iso", "g": g, "p": proj_to_j(&rescale(&a, lam)), "cls": cls}));
            }
            let mut n = a;
            n.negate();
            ops.push(json!({"op": "iso", "g": g, "p": proj_to_j(&rescale(&n, &m1)), "cls": "negative-Z=-1"}));
        }
        if i % 3 == 1 {
            // the normalized representative (X/Z^2, Y/Z^3, 1) of the same point
            let a = p.into_affine();
            ops.push(json!({"op": "iso", "g": g, "p": proj_to_j(&a.into_projective()), "cls": "normalized-Z=1"}));
        }
        if i % 5 == 0 {
            let q: G = swu_point::<G>(r);
            ops.push(json!({"op": "iso_hom", "g": g, "p": proj_to_j(&p), "q": proj_to_j(&q), "cls": "homomorphism"}));
            if i % 10 == 0 {
                let qn = q.into_affine().into_projective();
                ops.push(json!({"op": "iso_hom", "g": g, "p": proj_to_j(&p), "q": proj_to_j(&qn), "cls": "homomorphism-Z=1"}));
            }
        }
        chunk(sessions, &mut ops, per);
    }
    // the identity in several (X, Y, 0) forms
    let zero = G::Base::zero();
    let one = G::Base::one();
    ops.push(json!({"op": "iso", "g": g, "p": [zero.to_j(), one.to_j(), zero.to_j()], "cls": "identity"}));
    ops.push(json!({"op": "iso", "g": g, "p": [elem(r, g), elem(r, g), zero.to_j()], "cls": "identity-junk"}));
    ops.push(json!({"op": "iso", "g": g, "p": [zero.to_j(), zero.to_j(), zero.to_j()], "cls": "identity-000"}));
    sessions.push(ops);
}

pub fn wl_c16(seed: u64, tier: &str) -> Vec<Vec<Value>> {
    let mut r = Rng(seed.wrapping_mul(1616) ^ 16);
    let mut sessions = vec![];
    c16_group::<G1>(&mut r, tier == "thorough", &mut sessions);
    c16_group::<G2>(&mut r, tier == "thorough", &mut sessions);
    sessions.retain(|s| !s.is_empty());
    sessions
}

fn fr_r() -> [u64; 4] {
    let p = fr_info().p;
    [p[0], p[1], p[2], p[3]]
}

fn c17_group<G: Grp>(r: &mut Rng, seed: u64, thorough: bool, sessions: &mut Vec<Vec<Value>>)
where
    G: CurveProjective<Scalar = Fr>,
    G::Base: J,
    G::Affine: CurveAffine<Projective = G, Base = G::Base, Scalar = Fr>,
{
    let g = G::NAME;
    let is1 = g == "G1";
    let per = if is1 { 12 } else { 2 };
    let mut rng = xs(seed ^ 0x17);
    let mut ops = vec![];
    let n = if thorough { 400 } else if is1 { 80 } else { 20 };
    for i in 0..n {
        let (p, cls): (G, &str) = match i % 5 {
            0 => (G::random(&mut rng), "subgroup"),
            1 => {
                let lam = G::Base::from_j(&elem(r, g));
                (rescale(&full_order_point::<G>(r).into_projective(), &lam), "full-order-rescaled")
            }
            _ => (full_order_point::<G>(r).into_projective(), "full-order"),
        };
        ops.push(json!({"op": "clearh", "g": g, "p": proj_to_j(&p), "cls": cls}));
        if i % 10 == 3 {
            let mut m1 = G::Base::one();
            m1.negate();
            let a = p.into_affine().into_projective();
            ops.push(json!({"op": "clearh", "g": g, "p": proj_to_j(&rescale(&a, &m1)), "cls": "Z=-1"}));
            ops.push(json!({"op": "clearh", "g": g, "p": proj_to_j(&a), "cls": "Z=1"}));
        }
        chunk(sessions, &mut ops, per);
    }
    // points without any component in the order-r subgroup ([r]Q for a curve point Q: order divides the
    // cofactor, large in general), points of the form S + T with S in the subgroup, endomorphism images
    for i in 0..(if thorough { 12 } else { 3 }) {
        let q = full_order_point::<G>(r);
        let t = q.mul(pairing::bls12_381::FrRepr(fr_r()));
        ops.push(json!({"op": "clearh", "g": g, "p": proj_to_j(&t), "cls": "no-r-component"}));
        let mut st = t;
        st.add_assign(&G::random(&mut rng));
        ops.push(json!({"op": "clearh", "g": g, "p": proj_to_j(&st), "cls": "subgroup-plus-cofactor-part"}));
        if i == 0 {
            ops.push(json!({"op": "clearh", "g": g, "p": proj_to_j(&t.into_affine().into_projective()), "cls": "no-r-component/Z=1"}));
            let e = endo_img::<G>(&q, true);
            ops.push(json!({"op": "clearh", "g": g, "p": proj_to_j(&e.into_projective()), "cls": "endo(full-order)"}));
        }
        chunk(sessions, &mut ops, per);
    }
    let zero = G::Base::zero();
    ops.push(json!({"op": "clearh", "g": g, "p": proj_to_j(&G::zero()), "cls": "identity"}));
    ops.push(json!({"op": "clearh", "g": g, "p": [elem(r, g), elem(r, g), zero.to_j()], "cls": "identity-junk"}));
    ops.push(json!({"op": "clearh", "g": g, "p": proj_to_j(&G::one()), "cls": "generator"}));
    if is1 {
        let z = vec![0u64; 6];
        ops.push(json!({"op": "clearh", "g": g, "p": [nat(&z), nat(&w_add_small(&z, 2)), nat(&w_add_small(&z, 1))], "cls": "order-3"}));
    }
    sessions.push(ops);
}

pub fn wl_c17(seed: u64, tier: &str) -> Vec<Vec<Value>> {
    let mut r = Rng(seed.wrapping_mul(1717) ^ 17);
    let mut sessions = vec![];
    c17_group::<G1>(&mut r, seed, tier == "thorough", &mut sessions);
    c17_group::<G2>(&mut r, seed + 1, tier == "thorough", &mut sessions);
    sessions.retain(|s| !s.is_empty());
    sessions
}

pub fn wl_c14(seed: u64, tier: &str) -> Vec<Vec<Value>> {
    let thorough = tier == "thorough";
    let mut r = Rng(seed.wrapping_mul(1414) ^ 14);
    let mut sessions = vec![];
    for g in ["G1", "G2"].iter() {
        let is1 = *g == "G1";
        let per = if is1 { 6 } else { 1 };
        let mut ops = vec![];
        let sp = special_elems(&mut r, g);
        for (u, cls) in sp.iter() {
            ops.push(json!({"op": "map", "g": g, "u": u, "cls": cls}));
            chunk(&mut sessions, &mut ops, per);
        }
        let cat: Vec<Value> = if is1 { catalogue(&fq_info()).iter().map(|w| nat(w)).collect() } else { cat_f2(&mut r, &fq_info()) };
        for (i, u) in cat.iter().enumerate() {
            if !thorough && !is1 && i % 4 != (seed % 4) as usize {
                continue;
            }
            ops.push(json!({"op": "map", "g": g, "u": u, "cls": "catalogue"}));
            chunk(&mut sessions, &mut ops, per);
        }
        // every ordered pair of special inputs (equal ones - (0,0) - and opposite ones among them)
        for (i, (a, ca)) in sp.iter().enumerate() {
            for (j, (b, cb)) in sp.iter().enumerate() {
                if !is1 && !thorough && (i * 3 + j) % 4 != 0 && i != j && !(i < 3 && j < 3) {
                    continue;
                }
                ops.push(json!({"op": "map2", "g": g, "u0": a, "u1": b, "cls": format!("special-pair/{}/{}", ca, cb)}));
                chunk(&mut sessions, &mut ops, per);
            }
        }
        let n = if thorough { 200 } else if is1 { 30 } else { 6 };
        for i in 0..n {
            let u0 = elem(&mut r, g);
            let u1 = elem(&mut r, g);
            ops.push(json!({"op": "map", "g": g, "u": u0, "cls": "rand"}));
            ops.push(json!({"op": "map2", "g": g, "u0": u0, "u1": u1, "cls": "rand"}));
            if i % 3 == 0 {
                ops.push(json!({"op": "map2", "g": g, "u0": u0, "u1": neg_elem(g, &u0), "cls": "u1=-u0"}));
            }
            if i % 3 == 1 {
                ops.push(json!({"op": "map2", "g": g, "u0": u0, "u1": u0, "cls": "u1=u0"}));
            }
            if i % 3 == 2 {
                let (s, cls) = &sp[i % sp.len()];
                ops.push(json!({"op": "map2", "g": g, "u0": u0, "u1": s, "cls": format!("special-{}", cls)}));
            }
            chunk(&mut sessions, &mut ops, per);
        }
        sessions.push(ops);
    }
    sessions.retain(|s| !s.is_empty());
    sessions
}
