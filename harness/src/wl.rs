//! Seeded workload generators (impl -> spec direction).  They only *choose
//! inputs*; nothing here knows an expected value.  Limb helpers below are used
//! to build boundary operands (p-1, 2^64k +- 1, ...), never to predict results.
use crate::j::*;
use ff::PrimeField;
use pairing::bls12_381::{Fq, Fr};
use serde_json::{json, Value};

pub struct Rng(pub u64);
impl Rng {
    pub fn next(&mut self) -> u64 {
        // splitmix64
        self.0 = self.0.wrapping_add(0x9e3779b97f4a7c15);
        let mut z = self.0;
        z = (z ^ (z >> 30)).wrapping_mul(0xbf58476d1ce4e5b9);
        z = (z ^ (z >> 27)).wrapping_mul(0x94d049bb133111eb);
        z ^ (z >> 31)
    }
    pub fn below(&mut self, n: u64) -> u64 {
        self.next() % n
    }
    pub fn pick<'a, T>(&mut self, v: &'a [T]) -> &'a T {
        &v[self.below(v.len() as u64) as usize]
    }
    pub fn bytes(&mut self, n: usize) -> Vec<u8> {
        (0..n).map(|_| self.next() as u8).collect()
    }
}

pub type W = Vec<u64>; // little-endian 64-bit words

pub fn w_lt(a: &W, b: &W) -> bool {
    for i in (0..a.len().max(b.len())).rev() {
        let (x, y) = (*a.get(i).unwrap_or(&0), *b.get(i).unwrap_or(&0));
        if x != y {
            return x < y;
        }
    }
    false
}
pub fn w_sub_small(a: &W, s: u64) -> W {
    let mut r = a.clone();
    let mut borrow = s;
    for x in r.iter_mut() {
        let (v, b) = x.overflowing_sub(borrow);
        *x = v;
        borrow = b as u64;
        if borrow == 0 {
            break;
        }
    }
    r
}
pub fn w_add_small(a: &W, s: u64) -> W {
    let mut r = a.clone();
    let mut carry = s;
    for x in r.iter_mut() {
        let (v, c) = x.overflowing_add(carry);
        *x = v;
        carry = c as u64;
        if carry == 0 {
            break;
        }
    }
    r
}
pub fn w_shr1(a: &W) -> W {
    let mut r = a.clone();
    let mut carry = 0u64;
    for x in r.iter_mut().rev() {
        let nc = *x & 1;
        *x = (*x >> 1) | (carry << 63);
        carry = nc;
    }
    r
}
pub fn w_pow2(k: usize, n: usize) -> W {
    let mut r = vec![0u64; n];
    r[k / 64] = 1u64 << (k % 64);
    r
}
pub fn w_ones(bits: usize, n: usize) -> W {
    let mut r = vec![0u64; n];
    for i in 0..bits {
        r[i / 64] |= 1u64 << (i % 64);
    }
    r
}
pub fn nat(w: &W) -> Value {
    words_to_nat(w)
}

pub struct FieldInfo {
    pub name: &'static str,
    pub p: W,
    pub nw: usize,
    pub bits: usize,
}
pub fn fq_info() -> FieldInfo {
    FieldInfo { name: "Fq", p: Fq::char().as_ref().to_vec(), nw: 6, bits: 381 }
}
pub fn fr_info() -> FieldInfo {
    FieldInfo { name: "Fr", p: Fr::char().as_ref().to_vec(), nw: 4, bits: 255 }
}

/// uniformly random canonical element (rejection sampling on the bit length)
pub fn rand_elem(r: &mut Rng, f: &FieldInfo) -> W {
    loop {
        let mut w: W = (0..f.nw).map(|_| r.next()).collect();
        let top = f.bits % 64;
        if top != 0 {
            w[f.nw - 1] &= (1u64 << top) - 1;
        }
        if w_lt(&w, &f.p) {
            return w;
        }
    }
}
pub fn rand_wide(r: &mut Rng, nw: usize) -> W {
    (0..nw).map(|_| r.next()).collect()
}

/// boundary catalogue of canonical elements
pub fn catalogue(f: &FieldInfo) -> Vec<W> {
    let mut v: Vec<W> = vec![];
    let z = vec![0u64; f.nw];
    for s in 0..4 {
        v.push(w_add_small(&z, s));
    }
    for s in 1..4 {
        v.push(w_sub_small(&f.p, s));
    }
    let half = w_shr1(&f.p); // (p-1)/2
    v.push(half.clone());
    v.push(w_add_small(&half, 1));
    v.push(w_sub_small(&half, 1));
    for k in 1..f.nw {
        let t = w_pow2(64 * k, f.nw);
        if w_lt(&t, &f.p) {
            v.push(t.clone());
            v.push(w_add_small(&t, 1));
            v.push(w_sub_small(&t, 1));
        }
    }
    v.push(w_ones(f.bits - 1, f.nw));
    v.push(w_pow2(f.bits - 1, f.nw));
    // words of all ones in the low part
    for k in 1..f.nw {
        v.push(w_ones(64 * k, f.nw));
    }
    // alternating pattern below p
    let mut alt: W = vec![0xaaaaaaaaaaaaaaaa; f.nw];
    alt[f.nw - 1] &= (1u64 << ((f.bits - 1) % 64)) - 1;
    v.push(alt);
    // one word zero / all ones inside an otherwise arbitrary value (fixed pseudo-random filler)
    let mut fill = Rng(0x5eed ^ f.bits as u64);
    for i in 0..f.nw {
        for pat in [0u64, u64::MAX].iter() {
            let mut w: W = (0..f.nw).map(|_| fill.next()).collect();
            w[f.nw - 1] &= (1u64 << ((f.bits - 2) % 64)) - 1;
            if i == f.nw - 1 && *pat != 0 {
                continue;
            }
            w[i] = *pat;
            v.push(w);
        }
    }
    v.retain(|x| w_lt(x, &f.p));
    v
}

pub fn fp(f: &FieldInfo, func: &str, a: &W) -> Value {
    json!({"op": "fp", "f": f.name, "fn": func, "a": nat(a)})
}
pub fn fp2(f: &FieldInfo, func: &str, a: &W, b: &W) -> Value {
    json!({"op": "fp", "f": f.name, "fn": func, "a": nat(a), "b": nat(b)})
}
fn rp(f: &FieldInfo, func: &str, a: &W) -> Value {
    json!({"op": "repr", "f": f.name, "fn": func, "a": nat(a)})
}

/// C08: prime-field arithmetic and the representation type
fn wl_c08(seed: u64, tier: &str) -> Vec<Vec<Value>> {
    let mut sessions = vec![];
    let thorough = tier == "thorough";
    for f in [fq_info(), fr_info()].iter() {
        let cat = catalogue(f);
        let mut r = Rng(seed ^ f.bits as u64);
        // catalogue x catalogue binary ops
        let mut ops = vec![];
        for a in &cat {
            for b in &cat {
                for func in ["add", "sub", "mul", "cmp", "eq"].iter() {
                    ops.push(fp2(f, func, a, b));
                }
            }
        }
        sessions.push(ops);
        let mut ops = vec![];
        for a in &cat {
            for func in ["neg", "dbl", "sqr", "inv", "is_zero", "into_repr"].iter() {
                ops.push(fp(f, func, a));
            }
        }
        // exponents of 0..12 words
        let exps: Vec<(W, usize)> = {
            let mut e: Vec<(W, usize)> = vec![(vec![], 0), (vec![0], 1), (vec![1], 1), (vec![2], 1)];
            e.push((w_sub_small(&f.p, 1), f.nw));
            e.push((f.p.clone(), f.nw));
            e.push((w_sub_small(&f.p, 2), f.nw));
            e.push((vec![0, 1], 2));
            e.push((vec![0, 0, 0], 3)); // zero given with several words
            for k in 1..=12 {
                e.push((rand_wide(&mut r, k), k));
            }
            e.push((w_pow2(64 * 7, 8), 8));
            e
        };
        for a in cat.iter().take(12).chain(std::iter::once(&rand_elem(&mut r, f))) {
            for (e, n) in &exps {
                ops.push(json!({"op": "fp", "f": f.name, "fn": "pow", "a": nat(a), "e": nat(e), "ew": n}));
            }
        }
        // from_repr below / at / above the modulus
        let mut reprs: Vec<W> = cat.clone();
        reprs.push(f.p.clone());
        reprs.push(w_add_small(&f.p, 1));
        reprs.push(w_ones(64 * f.nw, f.nw));
        reprs.push(w_pow2(f.bits, f.nw));
        reprs.push(w_pow2(64 * f.nw - 1, f.nw));
        for _ in 0..40 {
            reprs.push(rand_wide(&mut r, f.nw));
        }
        // values that share the upper limbs with the modulus and differ in one lower limb, in both
        // directions (a limb-wise comparison must start from the most significant limb)
        for i in 0..f.nw {
            let mut up = f.p.clone();
            let mut dn = f.p.clone();
            // p + 2^(64 i) - 1  and  p - 2^(64 i) + 1  by limb surgery (no carries needed for these shapes)
            if i > 0 {
                up[i] = up[i].wrapping_add(1);
                for j in 0..i { up[j] = f.p[j].wrapping_sub(1); }
                dn[i] = dn[i].wrapping_sub(1);
                for j in 0..i { dn[j] = f.p[j].wrapping_add(1); }
                reprs.push(up);
                reprs.push(dn);
            }
            let mut z = f.p.clone();
            z[i] = 0;
            reprs.push(z);
            let mut m = f.p.clone();
            m[i] = u64::MAX;
            if i == f.nw - 1 { m[i] = f.p[i]; m[0] = u64::MAX; }
            reprs.push(m);
            let mut lo = vec![0u64; f.nw];
            lo[f.nw - 1] = f.p[f.nw - 1];
            lo[i] = if i == f.nw - 1 { f.p[i] } else { u64::MAX };
            reprs.push(lo);
        }
        // only the top word too large
        let mut t = f.p.clone();
        t[f.nw - 1] += 1;
        t[0] = 0;
        reprs.push(t);
        for n in &reprs {
            ops.push(json!({"op": "fp", "f": f.name, "fn": "from_repr", "n": nat(n)}));
        }
        sessions.push(ops);
        // representation type
        let mut ops = vec![];
        let mut rv: Vec<W> = reprs.clone();
        for _ in 0..20 {
            rv.push(rand_wide(&mut r, f.nw));
        }
        let w = 64 * f.nw as u64;
        for a in &rv {
            for func in ["div2", "mul2", "num_bits", "is_odd", "is_even", "is_zero", "write_be", "write_le"].iter() {
                ops.push(rp(f, func, a));
            }
            for n in [0u64, 1, 31, 63, 64, 65, 127, 128, 129, w - 1, w, w + 1, 1000, 2147483647].iter() {
                ops.push(json!({"op": "repr", "f": f.name, "fn": "shr", "a": nat(a), "n": n}));
                ops.push(json!({"op": "repr", "f": f.name, "fn": "shl", "a": nat(a), "n": n}));
            }
        }
        // pairs that agree everywhere except in the top bit of one word (a difference of 2^63 in the first
        // differing word: comparison by subtraction overflows there), also as reduced field elements
        for i in 0..f.nw {
            for _ in 0..3 {
                let mut a = rand_elem(&mut r, f);
                let mut b = a.clone();
                a[i] &= !(1u64 << 63);
                b[i] |= 1u64 << 63;
                if i == f.nw - 1 {
                    // keep both below the modulus: use the highest bit available in the top word
                    let hb = (f.bits - 2) % 64;
                    a[i] &= (1u64 << hb) - 1;
                    b[i] = a[i] | (1u64 << hb);
                }
                for (x, y) in [(&a, &b), (&b, &a)].iter() {
                    ops.push(json!({"op": "repr", "f": f.name, "fn": "cmp", "a": nat(x), "b": nat(y), "cls": "top-bit-of-a-word"}));
                    if w_lt(x, &f.p) && w_lt(y, &f.p) {
                        ops.push(json!({"op": "fp", "f": f.name, "fn": "cmp", "a": nat(x), "b": nat(y), "cls": "top-bit-of-a-word"}));
                        ops.push(json!({"op": "fp", "f": f.name, "fn": "sub", "a": nat(x), "b": nat(y), "cls": "top-bit-of-a-word"}));
                    }
                }
            }
        }
        for _ in 0..(if thorough { 3000 } else { 300 }) {
            let a = r.pick(&rv).clone();
            let b = r.pick(&rv).clone();
            ops.push(json!({"op": "repr", "f": f.name, "fn": "cmp", "a": nat(&a), "b": nat(&b)}));
            ops.push(json!({"op": "repr", "f": f.name, "fn": "eq", "a": nat(&a), "b": nat(&b)}));
            // preconditions: no carry out of the width / no borrow
            let (mut x, mut y) = (a.clone(), b.clone());
            x[f.nw - 1] >>= 1;
            y[f.nw - 1] >>= 1;
            ops.push(json!({"op": "repr", "f": f.name, "fn": "add_nocarry", "a": nat(&x), "b": nat(&y)}));
            let (hi, lo) = if w_lt(&a, &b) { (b, a) } else { (a, b) };
            ops.push(json!({"op": "repr", "f": f.name, "fn": "sub_noborrow", "a": nat(&hi), "b": nat(&lo)}));
        }
        for len in [0usize, 1, 8 * f.nw - 1, 8 * f.nw, 8 * f.nw + 1, 8 * f.nw + 9].iter() {
            for _ in 0..3 {
                let b = r.bytes(*len);
                ops.push(json!({"op": "repr", "f": f.name, "fn": "read_be", "bytes": bytes_to_j(&b)}));
                ops.push(json!({"op": "repr", "f": f.name, "fn": "read_le", "bytes": bytes_to_j(&b)}));
                ops.push(json!({"op": "repr", "f": f.name, "fn": "read_be", "bytes": bytes_to_j(&b), "dirty": true, "cls": "non-zero-destination"}));
                ops.push(json!({"op": "repr", "f": f.name, "fn": "read_le", "bytes": bytes_to_j(&b), "dirty": true, "cls": "non-zero-destination"}));
                // the same bytes from readers that deliver them in pieces
                for chunk in [1u64, 7, 8, 13, 8 * f.nw as u64 - 1].iter() {
                    ops.push(json!({"op": "repr", "f": f.name, "fn": "read_be", "bytes": bytes_to_j(&b), "reader": chunk, "cls": "piecewise-reader"}));
                    ops.push(json!({"op": "repr", "f": f.name, "fn": "read_le", "bytes": bytes_to_j(&b), "reader": chunk, "cls": "piecewise-reader"}));
                }
            }
        }
        for x in [0u64, 1, 2, 0xffff, 0x10000, u64::MAX, 1u64 << 63].iter() {
            ops.push(json!({"op": "repr", "f": f.name, "fn": "from_u64", "a": nat(&vec![*x])}));
        }
        ops.push(json!({"op": "fp", "f": f.name, "fn": "consts"}));
        sessions.push(ops);
        // random operands
        let n = if thorough { 200_000 } else { 6_000 };
        let per = 2_000;
        let mut ops = vec![];
        for i in 0..n {
            let a = if r.below(8) == 0 { r.pick(&cat).clone() } else { rand_elem(&mut r, f) };
            let b = if r.below(8) == 0 { r.pick(&cat).clone() } else { rand_elem(&mut r, f) };
            let func = *r.pick(&["add", "sub", "mul", "neg", "dbl", "sqr", "inv", "cmp", "pow", "eq"]);
            if func == "pow" {
                let k = 1 + r.below(6) as usize;
                let e = rand_wide(&mut r, k);
                ops.push(json!({"op": "fp", "f": f.name, "fn": "pow", "a": nat(&a), "e": nat(&e), "ew": k}));
            } else {
                ops.push(fp2(f, func, &a, &b));
            }
            if (i + 1) % per == 0 {
                sessions.push(std::mem::replace(&mut ops, vec![]));
            }
        }
        if !ops.is_empty() {
            sessions.push(ops);
        }
    }
    sessions
}


// ---------------------------------------------------------------------------
// tower elements as JSON
pub fn f2(a: &W, b: &W) -> Value {
    json!([nat(a), nat(b)])
}
pub fn rand_f2(r: &mut Rng, f: &FieldInfo) -> Value {
    let a = rand_elem(r, f);
    let b = rand_elem(r, f);
    f2(&a, &b)
}
pub fn rand_f6(r: &mut Rng, f: &FieldInfo) -> Value {
    json!([rand_f2(r, f), rand_f2(r, f), rand_f2(r, f)])
}
pub fn rand_f12(r: &mut Rng, f: &FieldInfo) -> Value {
    json!([rand_f6(r, f), rand_f6(r, f)])
}
pub fn zero_w(f: &FieldInfo) -> W {
    vec![0u64; f.nw]
}
/// Fq2 catalogue: 0, 1, -1, u, -u, 1+u, single coordinates, boundary pairs
pub fn cat_f2(r: &mut Rng, f: &FieldInfo) -> Vec<Value> {
    let z = zero_w(f);
    let one = w_add_small(&z, 1);
    let m1 = w_sub_small(&f.p, 1);
    let half = w_shr1(&f.p);
    let mut v = vec![];
    let small: Vec<W> = vec![z.clone(), one.clone(), m1.clone(), w_add_small(&z, 2), half.clone(), w_add_small(&half, 1)];
    for a in &small {
        for b in &small {
            v.push(f2(a, b));
        }
    }
    for _ in 0..4 {
        v.push(f2(&rand_elem(r, f), &z));
        v.push(f2(&z, &rand_elem(r, f)));
    }
    // limb boundaries: non-zero values whose low limb(s) are zero, paired with odd / even / zero
    let three = w_add_small(&z, 3);
    for k in [64usize, 128, 320].iter() {
        let b = w_pow2(*k, f.nw);
        let b3 = { let mut t = b.clone(); t[*k / 64] = 3; t };
        for other in [&one, &w_add_small(&z, 2), &z, &three, &b].iter() {
            v.push(f2(&b, other));
            v.push(f2(other, &b));
            v.push(f2(&b3, other));
        }
    }
    v
}
fn f6_of(c: [&Value; 3]) -> Value {
    json!([c[0], c[1], c[2]])
}
fn cat_f6(r: &mut Rng, f: &FieldInfo) -> Vec<Value> {
    let z = zero_w(f);
    let one = w_add_small(&z, 1);
    let m1 = w_sub_small(&f.p, 1);
    let z2 = f2(&z, &z);
    let o2 = f2(&one, &z);
    let u2 = f2(&z, &one);
    let m2 = f2(&m1, &z);
    let mut v = vec![];
    v.push(f6_of([&z2, &z2, &z2]));
    v.push(f6_of([&o2, &z2, &z2]));
    v.push(f6_of([&m2, &z2, &z2]));
    v.push(f6_of([&z2, &o2, &z2])); // v
    v.push(f6_of([&z2, &z2, &o2])); // v^2
    v.push(f6_of([&u2, &z2, &z2]));
    v.push(f6_of([&z2, &u2, &m2]));
    for i in 0..3 {
        let x = rand_f2(r, f);
        let mut c = [&z2, &z2, &z2];
        c[i] = &x;
        v.push(f6_of(c));
        // Fq inside
        let y = f2(&rand_elem(r, f), &z);
        let mut c = [&z2, &z2, &z2];
        c[i] = &y;
        v.push(f6_of(c));
    }
    for i in 0..3 {
        let (x, y) = (rand_f2(r, f), rand_f2(r, f));
        let mut c = [&x, &y, &z2];
        c.rotate_left(i);
        v.push(f6_of(c));
    }
    v
}
fn cat_f12(r: &mut Rng, f: &FieldInfo) -> Vec<Value> {
    let c6 = cat_f6(r, f);
    let z6 = c6[0].clone();
    let mut v = vec![];
    for a in c6.iter().take(10) {
        v.push(json!([a, z6]));
        v.push(json!([z6, a]));
    }
    for a in c6.iter().skip(10) {
        v.push(json!([a, z6]));
    }
    v.push(json!([c6[1], c6[1]]));
    v.push(json!([rand_f6(r, f), c6[3]]));
    v
}

pub fn ext1(fname: &str, func: &str, a: &Value) -> Value {
    json!({"op": "ext", "f": fname, "fn": func, "a": a})
}
pub fn ext2(fname: &str, func: &str, a: &Value, b: &Value) -> Value {
    json!({"op": "ext", "f": fname, "fn": func, "a": a, "b": b})
}

/// C09: the tower
fn wl_c09(seed: u64, tier: &str) -> Vec<Vec<Value>> {
    let thorough = tier == "thorough";
    let fq = fq_info();
    let mut r = Rng(seed.wrapping_mul(77) ^ 9);
    let mut sessions: Vec<Vec<Value>> = vec![];
    let frob_ks: Vec<W> = {
        let mut k: Vec<W> = (0u64..14).map(|x| vec![x]).collect();
        for x in [24u64, 25, 35, 36, 1u64 << 32 | 5, u64::MAX, u64::MAX - 1].iter() {
            k.push(vec![*x]);
        }
        k
    };
    for (fname, cat) in [("Fq2", cat_f2(&mut r, &fq)), ("Fq6", cat_f6(&mut r, &fq)), ("Fq12", cat_f12(&mut r, &fq))].iter() {
        let rnd = |r: &mut Rng| -> Value {
            match *fname {
                "Fq2" => rand_f2(r, &fq),
                "Fq6" => rand_f6(r, &fq),
                _ => rand_f12(r, &fq),
            }
        };
        let mut ops = vec![];
        // catalogue: unary on all, binary on catalogue x (catalogue sample + random)
        for a in cat.iter() {
            for func in ["neg", "dbl", "sqr", "inv", "is_zero"].iter() {
                ops.push(ext1(fname, func, a));
            }
            if *fname != "Fq12" {
                ops.push(ext1(fname, "mul_by_nonresidue", a));
            }
            if *fname == "Fq2" {
                ops.push(ext1(fname, "norm", a));
            }
            if *fname == "Fq12" {
                ops.push(ext1(fname, "conj", a));
            }
        }
        sessions.push(std::mem::replace(&mut ops, vec![]));
        let nb = if *fname == "Fq12" { 6 } else { 12 };
        for a in cat.iter() {
            let mut bs: Vec<Value> = (0..nb).map(|_| r.pick(cat).clone()).collect();
            bs.push(rnd(&mut r));
            for b in &bs {
                for func in ["add", "sub", "mul", "eq"].iter() {
                    ops.push(ext2(fname, func, a, b));
                }
                if *fname == "Fq2" {
                    ops.push(ext2(fname, "cmp", a, b));
                }
            }
            if ops.len() > 600 {
                sessions.push(std::mem::replace(&mut ops, vec![]));
            }
        }
        sessions.push(std::mem::replace(&mut ops, vec![]));
        // Frobenius with every listed power on catalogue samples and random elements
        let mut els: Vec<Value> = (0..4).map(|_| r.pick(cat).clone()).collect();
        for _ in 0..(if thorough { 12 } else { 3 }) {
            els.push(rnd(&mut r));
        }
        for a in &els {
            for k in &frob_ks {
                ops.push(json!({"op": "ext", "f": fname, "fn": "frob", "a": a, "k": nat(k)}));
            }
        }
        sessions.push(std::mem::replace(&mut ops, vec![]));
        // sparse products
        let spn = if thorough { 400 } else { 40 };
        if *fname == "Fq6" {
            let c2 = cat_f2(&mut r, &fq);
            for i in 0..spn {
                let a = if i % 3 == 0 { r.pick(cat).clone() } else { rnd(&mut r) };
                let c0 = if i % 4 == 0 { r.pick(&c2).clone() } else { rand_f2(&mut r, &fq) };
                let c1 = if i % 5 == 0 { r.pick(&c2).clone() } else { rand_f2(&mut r, &fq) };
                ops.push(json!({"op": "ext", "f": "Fq6", "fn": "mul_by_1", "a": a, "c1": c1}));
                ops.push(json!({"op": "ext", "f": "Fq6", "fn": "mul_by_01", "a": a, "c0": c0, "c1": c1}));
            }
            sessions.push(std::mem::replace(&mut ops, vec![]));
        }
        if *fname == "Fq12" {
            let c2 = cat_f2(&mut r, &fq);
            for i in 0..spn {
                let a = if i % 3 == 0 { r.pick(cat).clone() } else { rnd(&mut r) };
                let c0 = if i % 4 == 0 { r.pick(&c2).clone() } else { rand_f2(&mut r, &fq) };
                let c1 = if i % 5 == 0 { r.pick(&c2).clone() } else { rand_f2(&mut r, &fq) };
                let c4 = if i % 7 == 0 { r.pick(&c2).clone() } else { rand_f2(&mut r, &fq) };
                ops.push(json!({"op": "ext", "f": "Fq12", "fn": "mul_by_014", "a": a, "c0": c0, "c1": c1, "c4": c4}));
                if ops.len() >= 60 {
                    sessions.push(std::mem::replace(&mut ops, vec![]));
                }
            }
            sessions.push(std::mem::replace(&mut ops, vec![]));
        }
        // every zero / non-zero pattern of the coefficients (a dense routine that dispatches on the
        // shape of an operand must be right for every shape), on either side of the product
        if *fname == "Fq12" || *fname == "Fq6" {
            let z = zero_w(&fq);
            let ncoef = if *fname == "Fq12" { 12 } else { 6 };
            let build = |r: &mut Rng, mask: u32| -> Value {
                let cs: Vec<W> = (0..ncoef).map(|i| if mask >> i & 1 == 1 { rand_elem(r, &fq) } else { z.clone() }).collect();
                let f2s: Vec<Value> = (0..ncoef / 2).map(|i| f2(&cs[2 * i], &cs[2 * i + 1])).collect();
                if ncoef == 12 {
                    json!([[f2s[0], f2s[1], f2s[2]], [f2s[3], f2s[4], f2s[5]]])
                } else {
                    json!([f2s[0], f2s[1], f2s[2]])
                }
            };
            let mut masks: Vec<u32> = vec![];
            // patterns over the Fq2 coefficients (both halves of a coefficient present or absent)
            for m in 1u32..(1 << (ncoef / 2)) {
                let mut full = 0u32;
                for i in 0..(ncoef / 2) {
                    if m >> i & 1 == 1 {
                        full |= 3 << (2 * i);
                    }
                }
                masks.push(full);
            }
            for _ in 0..(if thorough { 400 } else { 40 }) {
                masks.push(1 + r.below((1u64 << ncoef) - 1) as u32);
            }
            for (i, m) in masks.iter().enumerate() {
                let pat = build(&mut r, *m);
                let a = rnd(&mut r);
                let cls = format!("shape-{:03x}", m);
                ops.push(json!({"op": "ext", "f": fname, "fn": "mul", "a": a, "b": pat, "cls": cls}));
                ops.push(json!({"op": "ext", "f": fname, "fn": "mul", "a": pat, "b": a, "cls": cls}));
                ops.push(json!({"op": "ext", "f": fname, "fn": "sqr", "a": pat, "cls": cls}));
                ops.push(json!({"op": "ext", "f": fname, "fn": "inv", "a": pat, "cls": cls}));
                ops.push(json!({"op": "ext", "f": fname, "fn": "is_zero", "a": pat, "cls": cls}));
                ops.push(json!({"op": "ext", "f": fname, "fn": "eq", "a": pat, "b": build(&mut r, 0), "cls": cls}));
                let other = build(&mut r, masks[(i * 7 + 3) % masks.len()]);
                ops.push(json!({"op": "ext", "f": fname, "fn": "mul", "a": pat, "b": other, "cls": cls}));
                if *fname == "Fq12" && i % 4 == 0 {
                    ops.push(json!({"op": "ext", "f": fname, "fn": "frob", "a": pat, "k": nat(&vec![1 + (i as u64 % 11)]), "cls": cls}));
                    ops.push(json!({"op": "ext", "f": fname, "fn": "conj", "a": pat, "cls": cls}));
                }
                if ops.len() >= 60 {
                    sessions.push(std::mem::replace(&mut ops, vec![]));
                }
            }
            sessions.push(std::mem::replace(&mut ops, vec![]));
        }
        // adjacency on one thread: elements sharing their first half, its negative, the norm of the
        // previous operand ... inverted / squared back to back (whatever a routine remembers of the
        // previous call must not leak into the next)
        if *fname == "Fq12" || *fname == "Fq6" {
            use ff::Field;
            use pairing::bls12_381::{Fq12, Fq6};
            let z = zero_w(&fq);
            let z2 = f2(&z, &z);
            let z6 = json!([z2, z2, z2]);
            let one2 = f2(&w_add_small(&z, 1), &z);
            for _ in 0..(if thorough { 6 } else { 2 }) {
                let seq: Vec<Value> = if *fname == "Fq12" {
                    let a = rand_f6(&mut r, &fq);
                    let na = { let mut t = Fq6::from_j(&a); t.negate(); t.to_j() };
                    let one6 = json!([one2, z2, z2]);
                    let m = Fq12::from_j(&rand_f12(&mut r, &fq));
                    let mut u = m;
                    u.conjugate();
                    u.mul_assign(&m.inverse().unwrap());
                    vec![json!([one6, z6]), json!([one6, rand_f6(&mut r, &fq)]), json!([a, z6]), json!([a, rand_f6(&mut r, &fq)]),
                         json!([na, rand_f6(&mut r, &fq)]), json!([a, z6]), u.to_j(), json!([one6, [z2, one2, z2]]),
                         json!([one6, z6]), json!([[z2, z2, one2], rand_f6(&mut r, &fq)])]
                } else {
                    let a = rand_f2(&mut r, &fq);
                    vec![json!([one2, z2, z2]), json!([one2, rand_f2(&mut r, &fq), z2]), json!([a, z2, z2]),
                         json!([a, rand_f2(&mut r, &fq), rand_f2(&mut r, &fq)]), json!([a, z2, z2]), json!([one2, z2, rand_f2(&mut r, &fq)])]
                };
                for x in seq.iter() {
                    ops.push(json!({"op": "ext", "f": fname, "fn": "inv", "a": x, "cls": "adjacent-related"}));
                }
                for x in seq.iter() {
                    ops.push(json!({"op": "ext", "f": fname, "fn": "sqr", "a": x, "cls": "adjacent-related"}));
                    ops.push(json!({"op": "ext", "f": fname, "fn": "mul", "a": x, "b": seq[0], "cls": "adjacent-related"}));
                }
            }
            sessions.push(std::mem::replace(&mut ops, vec![]));
        }
        // elements of norm one (x * conj(x) = 1: the cyclotomic / unitary elements every pairing
        // value is) - a class of its own for inversion and squaring shortcuts
        if *fname == "Fq12" || *fname == "Fq2" {
            use ff::Field;
            use pairing::bls12_381::{Fq12, Fq2 as LFq2};
            for i in 0..(if thorough { 40 } else { 6 }) {
                let xj = if *fname == "Fq12" {
                    let y = Fq12::from_j(&rnd(&mut r));
                    let mut x = y;
                    x.conjugate();
                    x.mul_assign(&y.inverse().unwrap());
                    if i % 3 == 2 {
                        // also through the second easy-part step: x^(q^2) * x (cyclotomic subgroup)
                        let mut f = x;
                        f.frobenius_map(2);
                        x.mul_assign(&f);
                    }
                    x.to_j()
                } else {
                    let y = LFq2::from_j(&rnd(&mut r));
                    let mut x = y;
                    x.frobenius_map(1);
                    x.mul_assign(&y.inverse().unwrap());
                    x.to_j()
                };
                for func in ["inv", "sqr", "neg"].iter() {
                    ops.push(json!({"op": "ext", "f": fname, "fn": func, "a": xj, "cls": "unitary"}));
                }
                if *fname == "Fq12" {
                    // a subfield element (Fq, Fq2, Fq4 = Fq2(v w), Fq6) times the unitary one
                    let z = zero_w(&fq);
                    let z2 = f2(&z, &z);
                    let z6 = json!([z2, z2, z2]);
                    let subs = vec![
                        json!([[f2(&w_add_small(&z, 2), &z), z2, z2], z6]),
                        json!([[rand_f2(&mut r, &fq), z2, z2], z6]),
                        json!([[rand_f2(&mut r, &fq), z2, z2], [z2, rand_f2(&mut r, &fq), z2]]),
                        json!([rand_f6(&mut r, &fq), z6]),
                    ];
                    let s = &subs[i % subs.len()];
                    let mut f = Fq12::from_j(s);
                    f.mul_assign(&Fq12::from_j(&xj));
                    for func in ["inv", "sqr"].iter() {
                        ops.push(json!({"op": "ext", "f": fname, "fn": func, "a": f.to_j(), "cls": "subfield-times-unitary"}));
                    }
                    ops.push(json!({"op": "ext", "f": fname, "fn": "inv", "a": s, "cls": "subfield-element"}));
                    ops.push(json!({"op": "ext", "f": fname, "fn": "mul", "a": f.to_j(), "b": s, "cls": "subfield-times-unitary"}));
                }
                ops.push(json!({"op": "ext", "f": fname, "fn": "mul", "a": xj, "b": rnd(&mut r), "cls": "unitary"}));
                ops.push(json!({"op": "ext", "f": fname, "fn": "mul", "a": xj, "b": xj, "cls": "unitary"}));
                ops.push(json!({"op": "ext", "f": fname, "fn": "frob", "a": xj, "k": nat(&vec![1 + (i as u64 % 11)]), "cls": "unitary"}));
            }
            sessions.push(std::mem::replace(&mut ops, vec![]));
        }
        // random arithmetic
        let n = match (*fname, thorough) {
            ("Fq2", false) => 3000,
            ("Fq2", true) => 60000,
            ("Fq6", false) => 1200,
            ("Fq6", true) => 20000,
            (_, false) => 500,
            (_, true) => 8000,
        };
        let per = match *fname {
            "Fq2" => 1500,
            "Fq6" => 300,
            _ => 60,
        };
        for i in 0..n {
            let a = rnd(&mut r);
            let b = rnd(&mut r);
            let func = *r.pick(&["add", "sub", "mul", "mul", "sqr", "inv", "neg", "dbl", "pow"]);
            if func == "pow" {
                let k = 1 + r.below(2) as usize;
                let e = rand_wide(&mut r, k);
                ops.push(json!({"op": "ext", "f": fname, "fn": "pow", "a": a, "e": nat(&e), "ew": k}));
            } else {
                ops.push(ext2(fname, func, &a, &b));
            }
            if (i + 1) % per == 0 {
                sessions.push(std::mem::replace(&mut ops, vec![]));
            }
        }
        if !ops.is_empty() {
            sessions.push(ops);
        }
    }
    sessions.retain(|s| !s.is_empty());
    sessions
}

/// C18: square roots, quadratic character, sgn0, ordering
fn wl_c18(seed: u64, tier: &str) -> Vec<Vec<Value>> {
    let thorough = tier == "thorough";
    let mut sessions: Vec<Vec<Value>> = vec![];
    let mut r = Rng(seed.wrapping_mul(1313) ^ 18);
    {
        // Fq2 ordering on pairs whose coefficients agree except in the top bit of one word (either
        // coefficient), and small against all-ones words
        let fq = fq_info();
        let mut ops = vec![];
        let z = zero_w(&fq);
        let specials: Vec<W> = vec![w_add_small(&z, 1), w_ones(64, 6), w_ones(63, 6), w_pow2(63, 6), w_ones(128, 6), w_pow2(127, 6)];
        for a in specials.iter() {
            for b in specials.iter() {
                ops.push(ext2("Fq2", "cmp", &f2(&z, a), &f2(&z, b)));
                ops.push(ext2("Fq2", "cmp", &f2(a, &specials[0]), &f2(b, &specials[0])));
            }
        }
        for i in 0..6 {
            for k in 0..2 {
                let mut a = rand_elem(&mut r, &fq);
                let mut b = a.clone();
                let hb = if i == 5 { 58 } else { 63 };
                a[i] &= (1u64 << hb) - 1;
                b[i] = a[i] | (1u64 << hb);
                let c = rand_elem(&mut r, &fq);
                let (x, y) = if k == 0 { (f2(&a, &c), f2(&b, &c)) } else { (f2(&c, &a), f2(&c, &b)) };
                ops.push(ext2("Fq2", "cmp", &x, &y));
                ops.push(ext2("Fq2", "cmp", &y, &x));
            }
        }
        for o in ops.iter_mut() {
            o.as_object_mut().unwrap().insert("cls".into(), json!("top-bit-of-a-word"));
        }
        sessions.push(ops);
    }
    for f in [fq_info(), fr_info()].iter() {
        let cat = catalogue(f);
        let mut ops = vec![];
        let mut els: Vec<W> = cat.clone();
        for _ in 0..(if thorough { 20000 } else { 700 }) {
            els.push(rand_elem(&mut r, f));
        }
        for (i, a) in els.iter().enumerate() {
            ops.push(fp(f, "sqrt", a));
            ops.push(fp(f, "legendre", a));
            if f.name == "Fq" {
                ops.push(fp(f, "sgn0", a));
                ops.push(fp(f, "ypair", a));
                ops.push(json!({"op": "fp", "f": f.name, "fn": "negate_if", "a": nat(a), "s": i % 2}));
                // y and -y: p - y is the negation for y != 0 (input construction only)
            }
            let b = r.pick(&els).clone();
            ops.push(fp2(f, "cmp", a, &b));
            if ops.len() >= 1500 {
                sessions.push(std::mem::replace(&mut ops, vec![]));
            }
        }
        sessions.push(std::mem::replace(&mut ops, vec![]));
    }
    // Fq2
    let fq = fq_info();
    let c2 = cat_f2(&mut r, &fq);
    let z = zero_w(&fq);
    let mut els: Vec<Value> = c2.clone();
    let n = if thorough { 6000 } else { 300 };
    for i in 0..n {
        els.push(match i % 4 {
            0 => f2(&rand_elem(&mut r, &fq), &z), // in Fq: real or purely imaginary root
            1 => f2(&z, &rand_elem(&mut r, &fq)), // purely imaginary
            _ => rand_f2(&mut r, &fq),
        });
    }
    let mut ops = vec![];
    for (i, a) in els.iter().enumerate() {
        ops.push(ext1("Fq2", "sqrt", a));
        ops.push(ext1("Fq2", "legendre", a));
        ops.push(ext1("Fq2", "sgn0", a));
        ops.push(ext1("Fq2", "ypair", a));
        ops.push(json!({"op": "ext", "f": "Fq2", "fn": "negate_if", "a": a, "s": i % 2}));
        let b = r.pick(&els).clone();
        ops.push(ext2("Fq2", "cmp", a, &b));
        // squares by construction: the library's own square is only input preparation
        ops.push(json!({"op": "ext", "f": "Fq2", "fn": "sqrt_of_square", "a": a}));
        if ops.len() >= 400 {
            sessions.push(std::mem::replace(&mut ops, vec![]));
        }
    }
    sessions.push(ops);
    sessions.retain(|s| !s.is_empty());
    sessions
}


// ---------------------------------------------------------------------------
// C01: random programs over the register machine
use pairing::bls12_381::{G1, G2};
use pairing::{CurveAffine, CurveProjective, EncodedPoint};
use rand_core::SeedableRng;

pub fn xs(seed: u64) -> rand_xorshift::XorShiftRng {
    let mut s = [0u8; 16];
    s[..8].copy_from_slice(&seed.to_le_bytes());
    s[8..].copy_from_slice(&(!seed).to_le_bytes());
    rand_xorshift::XorShiftRng::from_seed(s)
}

/// a curve point of (almost surely) full order: unchecked decoding of a random compressed string
pub fn full_order_point<G: Grp>(r: &mut Rng) -> G::Affine
where
    G::Base: J,
{
    loop {
        let mut c = <<G::Affine as CurveAffine>::Compressed as EncodedPoint>::empty();
        let n = c.as_ref().len();
        let b = r.bytes(n);
        c.as_mut().copy_from_slice(&b);
        c.as_mut()[0] = (c.as_mut()[0] & 0x1f) | 0x80 | ((r.below(2) as u8) << 5);
        if n == 96 {
            // keep both Fq2 coordinates' top bits small enough to be reduced most of the time
            c.as_mut()[48] &= 0x1f;
        }
        if let Ok(p) = c.into_affine_unchecked() {
            if !p.is_zero() {
                return p;
            }
        }
    }
}

/// curve points (almost surely of full order) whose abscissa is a small integer; for G2 the integer
/// sits in c0 (`hi` false) or in c1 (`hi` true) and the other coefficient is zero
pub fn small_x_point<G: Grp>(start: u8, hi: bool) -> G::Affine
where
    G::Base: J,
{
    let mut k = start;
    loop {
        let mut c = <<G::Affine as CurveAffine>::Compressed as EncodedPoint>::empty();
        let n = c.as_ref().len();
        for b in c.as_mut().iter_mut() {
            *b = 0;
        }
        c.as_mut()[0] = 0x80;
        // G2 stores c1 first: bytes 0..48 are c1, 48..96 are c0
        let pos = if n == 96 && !hi { 95 } else { 47 };
        c.as_mut()[pos] = k;
        if let Ok(p) = c.into_affine_unchecked() {
            if !p.is_zero() {
                return p;
            }
        }
        k += 1;
    }
}

/// subgroup points one of whose coordinates (any 48-byte field of the uncompressed encoding) lies in
/// the top sliver below the modulus - leading byte 0x1a (one point in 6200 per field), leading two
/// bytes 0x1a01 (one in 95000) - or has a zero leading byte: found by walking P0 + k g from a seeded
/// random P0, normalising in batches.  (A prescribed abscissa cannot be combined with subgroup
/// membership any other way; narrower slivers are out of reach of a search.)
pub fn extreme_coord_points<G: Grp>(seed: u64, max_steps: usize, per_class: usize) -> Vec<(G, &'static str)>
where
    G::Base: J,
    G::Affine: CurveAffine<Projective = G>,
{
    let mut rng = xs(seed ^ 0xec);
    let mut acc = G::random(&mut rng);
    let one = G::one().into_affine();
    let nf = <<G::Affine as CurveAffine>::Uncompressed as EncodedPoint>::size() / 48;
    let mut hi2 = vec![0usize; nf];
    let mut hi = vec![0usize; nf];
    let mut lo = vec![0usize; nf];
    let mut out = vec![];
    let mut done = 0;
    while done < max_steps {
        let mut chunk: Vec<G> = Vec::with_capacity(2048);
        for _ in 0..2048 {
            acc.add_assign_mixed(&one);
            chunk.push(acc);
        }
        done += 2048;
        G::batch_normalization(&mut chunk);
        for p in chunk.iter() {
            let u = p.into_affine().into_uncompressed();
            let b = u.as_ref();
            for f in 0..nf {
                if b[48 * f] == 0x1a && b[48 * f + 1] == 0x01 && hi2[f] < per_class {
                    hi2[f] += 1;
                    out.push((*p, "coord-leading-bytes-1a01"));
                } else if b[48 * f] == 0x1a && hi[f] < per_class {
                    hi[f] += 1;
                    out.push((*p, "coord-leading-byte-1a"));
                } else if b[48 * f] == 0 && lo[f] < per_class {
                    lo[f] += 1;
                    out.push((*p, "coord-leading-byte-00"));
                }
            }
        }
        if hi2.iter().all(|x| *x >= per_class) {
            break;
        }
    }
    out
}

fn c01_program<G: Grp>(r: &mut Rng, seed: u64, steps: usize) -> Vec<Value>
where
    G: CurveProjective<Scalar = Fr>,
    G::Base: J,
    G::Affine: CurveAffine<Projective = G, Base = G::Base, Scalar = Fr>,
{
    let g = G::NAME;
    let mut rng = xs(seed);
    let mut ops = vec![json!({"op": "cm", "g": g, "fn": "reset"})];
    let nreg = 4u64;
    // initial points: generator multiples, random subgroup points, full-order curve points
    let mut pool: Vec<G> = vec![G::one(), G::zero()];
    for _ in 0..2 {
        pool.push(G::random(&mut rng));
    }
    for _ in 0..2 {
        pool.push(full_order_point::<G>(r).into_projective());
    }
    let mut two = G::one();
    two.double();
    pool.push(two);
    // sparse coordinates
    pool.push(small_x_point::<G>(1 + (seed % 5) as u8, false).into_projective());
    pool.push(small_x_point::<G>(1 + (seed % 7) as u8, true).into_projective());
    // same ordinate, different abscissa (images under (x, y) -> (beta x, y))
    let e1 = endo_img::<G>(&pool[2].into_affine(), false);
    pool.push(e1.into_projective());
    let e2 = endo_img::<G>(&pool[4].into_affine(), true);
    pool.push(e2.into_projective());
    for d in 0..nreg {
        let p = r.pick(&pool);
        ops.push(json!({"op": "cm", "g": g, "fn": "load", "d": d, "v": proj_to_j(p), "cls": "rand"}));
        let q = r.pick(&pool).into_affine();
        ops.push(json!({"op": "cm", "g": g, "fn": "load_aff", "d": d, "v": aff_to_j(&q), "cls": "rand"}));
    }
    let fq = fq_info();
    for _ in 0..steps {
        let d = r.below(nreg);
        let s = r.below(nreg);
        let f = *r.pick(&[
            "add", "add", "add", "sub", "sub", "add_mixed", "add_mixed", "sub_mixed", "double", "double",
            "negate", "negate_aff", "into_affine", "into_projective", "eq", "eq_aff", "is_zero",
            "is_zero_aff", "is_normalized", "copy", "copy", "rescale", "rescale", "batch", "reload", "sumdiff", "companion", "oppxy",
        ]);
        match f {
            "rescale" if r.below(3) == 0 => {
                // put register d on the scale of register s (same or opposite Z), then combine them
                let rel = *r.pick(&["same", "same", "neg"]);
                ops.push(json!({"op": "cm", "g": g, "fn": "rescale", "d": d, "s": s, "rel": rel, "cls": "co-z"}));
                let f2 = *r.pick(&["add", "sub", "eq", "add", "sub"]);
                ops.push(json!({"op": "cm", "g": g, "fn": f2, "d": d, "s": s, "cls": "co-z"}));
            }
            "rescale" => {
                // random factor, or one of the special ones -1 (Z^2 = 1), 2
                let z6 = vec![0u64; 6];
                let sp = match r.below(4) {
                    0 => Some(w_sub_small(&fq.p, 1)),
                    1 => Some(w_add_small(&z6, 2)),
                    _ => None,
                };
                let lam = match sp {
                    Some(w) => if g == "G1" { nat(&w) } else { f2(&w, &z6) },
                    None => if g == "G1" { nat(&rand_elem(r, &fq)) } else { rand_f2(r, &fq) },
                };
                ops.push(json!({"op": "cm", "g": g, "fn": "rescale", "d": d, "lam": lam, "cls": "rand"}));
            }
            "companion" => {
                // the points sharing an ordinate (up to sign) with a pool point B: (beta^k x, +-y); B itself
                // (on a random scale) in the projective register, the companion in the affine register
                let b = r.pick(&pool).into_affine();
                if !b.is_zero() {
                    let lam = if g == "G1" { nat(&rand_elem(r, &fq)) } else { rand_f2(r, &fq) };
                    let mut c = match r.below(3) { 0 => b, 1 => endo_img::<G>(&b, false), _ => endo_img::<G>(&b, true) };
                    if r.below(2) == 0 {
                        c.negate();
                    }
                    ops.push(json!({"op": "cm", "g": g, "fn": "load", "d": d, "v": proj_to_j(&b.into_projective()), "cls": "companion"}));
                    if r.below(2) == 0 {
                        ops.push(json!({"op": "cm", "g": g, "fn": "rescale", "d": d, "lam": lam, "cls": "companion"}));
                    }
                    ops.push(json!({"op": "cm", "g": g, "fn": "load_aff", "d": s, "v": aff_to_j(&c), "cls": "companion"}));
                    let f2 = *r.pick(&["add_mixed", "sub_mixed", "add_mixed", "sub_mixed", "eq_mixed"]);
                    if f2 == "eq_mixed" {
                        let t = (d + 1) % nreg;
                        ops.push(json!({"op": "cm", "g": g, "fn": "into_projective", "d": t, "s": s, "cls": "companion"}));
                        let f3 = *r.pick(&["add", "sub", "eq"]);
                        ops.push(json!({"op": "cm", "g": g, "fn": f3, "d": d, "s": t, "cls": "companion"}));
                    } else {
                        ops.push(json!({"op": "cm", "g": g, "fn": f2, "d": d, "s": s, "cls": "companion"}));
                    }
                }
            }
            "oppxy" => {
                // opposite points whose representatives share X and Y (Z negated): -P rescaled by -1, the
                // two orders of one sum, the doubles of P and -P
                let t = (d + 1 + r.below(nreg - 1)) % nreg;
                let m1 = if g == "G1" { nat(&w_sub_small(&fq.p, 1)) } else { f2(&w_sub_small(&fq.p, 1), &vec![0u64; 6]) };
                match r.below(3) {
                    0 => {
                        ops.push(json!({"op": "cm", "g": g, "fn": "copy", "d": t, "s": d, "cls": "opposite-same-XY"}));
                        ops.push(json!({"op": "cm", "g": g, "fn": "negate", "d": t, "cls": "opposite-same-XY"}));
                        ops.push(json!({"op": "cm", "g": g, "fn": "rescale", "d": t, "lam": m1, "cls": "opposite-same-XY"}));
                    }
                    1 => {
                        ops.push(json!({"op": "cm", "g": g, "fn": "copy", "d": t, "s": d, "cls": "opposite-same-XY"}));
                        ops.push(json!({"op": "cm", "g": g, "fn": "negate", "d": t, "cls": "opposite-same-XY"}));
                        ops.push(json!({"op": "cm", "g": g, "fn": "double", "d": t, "cls": "opposite-same-XY"}));
                        ops.push(json!({"op": "cm", "g": g, "fn": "double", "d": d, "cls": "opposite-same-XY"}));
                    }
                    _ => {
                        if t != s && d != s {
                            // d <- d + s, t <- -(s + d)
                            ops.push(json!({"op": "cm", "g": g, "fn": "copy", "d": t, "s": s, "cls": "opposite-same-XY"}));
                            ops.push(json!({"op": "cm", "g": g, "fn": "add", "d": t, "s": d, "cls": "opposite-same-XY"}));
                            ops.push(json!({"op": "cm", "g": g, "fn": "add", "d": d, "s": s, "cls": "opposite-same-XY"}));
                            ops.push(json!({"op": "cm", "g": g, "fn": "negate", "d": t, "cls": "opposite-same-XY"}));
                        }
                    }
                }
                let f2x = *r.pick(&["add", "add", "sub", "eq"]);
                ops.push(json!({"op": "cm", "g": g, "fn": f2x, "d": d, "s": t, "cls": "opposite-same-XY"}));
            }
            "sumdiff" => {
                // P+Q and P-Q computed from the same pair (they share their Z), then combined
                let t = (d + 1 + r.below(nreg - 1)) % nreg;
                if t != s && d != s {
                    let mixed = r.below(3) == 0;
                    ops.push(json!({"op": "cm", "g": g, "fn": "copy", "d": t, "s": d, "cls": "sumdiff"}));
                    ops.push(json!({"op": "cm", "g": g, "fn": if mixed { "add_mixed" } else { "add" }, "d": d, "s": s, "cls": "sumdiff"}));
                    ops.push(json!({"op": "cm", "g": g, "fn": if mixed { "sub_mixed" } else { "sub" }, "d": t, "s": s, "cls": "sumdiff"}));
                    let f2 = *r.pick(&["add", "sub"]);
                    ops.push(json!({"op": "cm", "g": g, "fn": f2, "d": d, "s": t, "cls": "sumdiff"}));
                }
            }
            "batch" if r.below(6) == 0 => {
                // a long slice (every register many times, in random order)
                let n = 40 + r.below(60);
                let pat: Vec<u64> = (0..n).map(|_| r.below(nreg)).collect();
                ops.push(json!({"op": "cm", "g": g, "fn": "batch_long", "pattern": pat, "cls": "long-batch"}));
            }
            "batch" => {
                let n = r.below(nreg + 1);
                let regs: Vec<u64> = (0..n).map(|_| r.below(nreg)).collect();
                // distinct registers only (a batch is a slice of distinct elements)
                let mut regs2: Vec<u64> = vec![];
                for x in regs {
                    if !regs2.contains(&x) {
                        regs2.push(x);
                    }
                }
                ops.push(json!({"op": "cm", "g": g, "fn": "batch_normalization", "regs": regs2, "cls": "rand"}));
            }
            "reload" => {
                let p = r.pick(&pool);
                ops.push(json!({"op": "cm", "g": g, "fn": "load", "d": d, "v": proj_to_j(p), "cls": "rand"}));
            }
            _ => ops.push(json!({"op": "cm", "g": g, "fn": f, "d": d, "s": s, "cls": "rand"})),
        }
    }
    ops
}

fn wl_c01(seed: u64, tier: &str) -> Vec<Vec<Value>> {
    let thorough = tier == "thorough";
    let mut r = Rng(seed.wrapping_mul(101) ^ 1);
    let mut sessions = vec![];
    let (n1, n2, len) = if thorough { (120, 60, 400) } else { (12, 6, 250) };
    for i in 0..n1 {
        sessions.push(c01_program::<G1>(&mut r, seed * 1000 + i, len));
    }
    for i in 0..n2 {
        sessions.push(c01_program::<G2>(&mut r, seed * 1000 + 500 + i, len / 2));
    }
    sessions
}


// ---------------------------------------------------------------------------
// C02 / C10: scalars and point pools
pub fn w_or(a: &W, b: &W) -> W {
    a.iter().zip(b.iter()).map(|(x, y)| x | y).collect()
}
pub fn rand_scalar_bits(r: &mut Rng, bits: usize) -> W {
    // uniformly random value with exactly `bits` significant bits (bits >= 1), 4 words
    let mut w: W = (0..4).map(|_| r.next()).collect();
    for i in bits..256 {
        w[i / 64] &= !(1u64 << (i % 64));
    }
    w[(bits - 1) / 64] |= 1u64 << ((bits - 1) % 64);
    w
}
/// (scalar, class) catalogue; `all` adds every single bit and more boundaries
pub fn scalar_catalogue(r: &mut Rng, all: bool) -> Vec<(W, &'static str)> {
    let fr = fr_info();
    let z = vec![0u64; 4];
    let mut v: Vec<(W, &'static str)> = vec![];
    for s in 0..3 {
        v.push((w_add_small(&z, s), "small"));
    }
    v.push((w_sub_small(&fr.p, 1), "r-1"));
    v.push((w_sub_small(&fr.p, 2), "r-2"));
    v.push((w_sub_small(&fr.p, 3), "r-3"));
    v.push((w_shr1(&fr.p), "(r-1)/2"));
    v.push((w_add_small(&w_shr1(&fr.p), 1), "(r+1)/2"));
    v.push((fr.p.clone(), "r"));
    v.push((w_add_small(&fr.p, 1), "r+1"));
    v.push((w_ones(255, 4), "2^255-1"));
    v.push((w_pow2(255, 4), "2^255"));
    v.push((w_ones(256, 4), "2^256-1"));
    v.push((w_or(&fr.p, &w_pow2(255, 4)), "r+2^255"));
    v.push((LAMBDA.to_vec(), "lambda"));
    v.push((LAMBDA2.to_vec(), "lambda^2"));
    let bits: Vec<usize> = if all {
        (0..256).collect()
    } else {
        vec![0, 1, 31, 32, 33, 63, 64, 65, 95, 96, 127, 128, 129, 160, 191, 192, 193, 223, 224, 253, 254, 255]
    };
    for b in bits {
        v.push((w_pow2(b, 4), "single-bit"));
    }
    for j in 0..4 {
        let mut w = z.clone();
        w[j] = u64::MAX;
        if j == 3 {
            w[3] >>= 1;
        }
        v.push((w, "ones-word"));
    }
    for b in [32usize, 64, 96, 128, 160, 192, 224].iter() {
        v.push((w_or(&w_pow2(*b, 4), &w_pow2(*b - 1, 4)), "straddle"));
    }
    for j in 0..4 {
        let mut w = rand_scalar_bits(r, 255);
        w[j] = 0;
        v.push((w, "zero-word"));
    }
    for i in [1usize, 32, 33, 63, 64, 65, 128, 192, 254].iter() {
        v.push((w_ones(*i, 4), "2^i-1"));
    }
    for _ in 0..(if all { 40 } else { 6 }) {
        v.push((rand_scalar_bits(r, 255), "rand255"));
        v.push((rand_scalar_bits(r, 256), "rand256"));
        let b = 1 + r.below(254) as usize;
        v.push((rand_scalar_bits(r, b), "randlen"));
    }
    v
}

/// the two non-trivial cube roots of unity of Fq (canonical limbs) and of Fr
pub const BETA: [u64; 6] = [0x2e01fffffffefffe, 0xde17d813620a0002, 0xddb3a93be6f89688, 0xba69c6076a0f77ea, 0x5f19672fdf76ce51, 0x0];
pub const BETA2: [u64; 6] = [0x8bfd00000000aaac, 0x409427eb4f49fffd, 0x897d29650fb85f9b, 0xaa0d857d89759ad4, 0xec02408663d4de85, 0x1a0111ea397fe699];
pub const LAMBDA: [u64; 4] = [0xffffffff, 0xac45a4010001a402, 0x0, 0x0];
pub const LAMBDA2: [u64; 4] = [0xfffffffe00000001, 0xa7780001fffcb7fc, 0x3339d80809a1d804, 0x73eda753299d7d48];

/// image under the curve automorphism (x, y) -> (beta x, y): a different point with the same ordinate
pub fn endo_img<G: Grp>(p: &G::Affine, sq: bool) -> G::Affine
where
    G::Base: J,
    G::Affine: CurveAffine<Projective = G, Base = G::Base>,
{
    use ff::Field;
    if p.is_zero() {
        return *p;
    }
    let w = if sq { BETA2.to_vec() } else { BETA.to_vec() };
    let z6 = vec![0u64; 6];
    let b = G::Base::from_j(&(if G::NAME == "G1" { nat(&w) } else { f2(&w, &z6) }));
    let (x, y) = p.as_tuple();
    let mut nx = *x;
    nx.mul_assign(&b);
    G::raw_aff(nx, *y, false)
}

pub fn point_pool<G: Grp>(r: &mut Rng, seed: u64, with_t3: bool) -> Vec<(G, &'static str)>
where
    G::Base: J,
    G::Affine: CurveAffine<Projective = G, Base = G::Base>,
{
    let mut rng = xs(seed);
    let mut v: Vec<(G, &'static str)> = vec![(G::one(), "gen")];
    let mut t = G::one();
    t.double();
    v.push((t, "2g"));
    let mut t3 = t;
    t3.add_assign(&G::one());
    v.push((t3, "3g-proj"));
    for _ in 0..3 {
        v.push((G::random(&mut rng), "subgroup"));
    }
    for _ in 0..2 {
        v.push((full_order_point::<G>(r).into_projective(), "full-order"));
    }
    {
        // special representatives (l^2 X, l^3 Y, l Z) with l = -1 and l = 2 of a subgroup point
        use ff::Field;
        let base = v[3].0.into_affine().into_projective();
        let (x, y, _) = { let (x, y, z) = base.as_tuple(); (*x, *y, *z) };
        let mut m1 = G::Base::one();
        m1.negate();
        let mut ny = y;
        ny.negate();
        v.push((G::raw(x, ny, m1), "Z=-1"));
        let mut two = G::Base::one();
        two.double();
        let (mut x4, mut y8) = (x, y);
        x4.double(); x4.double();
        y8.double(); y8.double(); y8.double();
        v.push((G::raw(x4, y8, two), "Z=2"));
    }
    v.push((G::zero(), "identity"));
    {
        // the identity as the result of P - P (a junk representative (X, Y, 0))
        let mut t = v[3].0;
        let u = t;
        t.sub_assign(&u);
        v.push((t, "identity-P-P"));
    }
    v.push((small_x_point::<G>(1 + (seed % 5) as u8, false).into_projective(), "small-x"));
    v.push((small_x_point::<G>(1 + (seed % 3) as u8, true).into_projective(), "small-x-c1"));
    // points sharing their ordinate with the generator / with a pool point
    let ge = endo_img::<G>(&G::one().into_affine(), false);
    v.push((ge.into_projective(), "endo(gen)"));
    let pe = endo_img::<G>(&v[4].0.into_affine(), true);
    v.push((pe.into_projective(), "endo2(subgroup)"));
    if with_t3 {
        // the order-3 point (0, 2) of E1
        let z = vec![0u64; 6];
        let p: G = j_to_proj::<G>(&json!([nat(&z), nat(&w_add_small(&z, 2)), nat(&w_add_small(&z, 1))]));
        v.push((p, "order-3"));
    }
    v
}

fn wl_c02_group<G: Grp>(r: &mut Rng, seed: u64, thorough: bool, sessions: &mut Vec<Vec<Value>>)
where
    G: CurveProjective<Scalar = Fr>,
    G::Base: J,
    G::Affine: CurveAffine<Projective = G, Base = G::Base, Scalar = Fr>,
{
    let g = G::NAME;
    let is1 = g == "G1";
    let pool = point_pool::<G>(r, seed, is1);
    let cat = scalar_catalogue(r, thorough);
    let maxw: u64 = if thorough { 16 } else { 12 };
    let mut ops = vec![];
    let per = if is1 { 4 } else { 2 };
    let stride = if is1 || thorough { 1 } else { 3 };
    for (i, (k, cls)) in cat.iter().enumerate() {
        if i % stride != 0 && !["r", "r-1", "r-2", "2^255-1", "r+2^255"].contains(cls) {
            continue;
        }
        let (p, pc) = &pool[i % pool.len()];
        let ws: Vec<u64> = (0..3).map(|j| 2 + ((i as u64 * 3 + j) % (maxw - 1))).collect();
        let idx: Vec<u64> = vec![1 << (i % 8), 255 - (i as u64 % 7), r.below(256)];
        ops.push(json!({"op": "smul", "g": g, "p": proj_to_j(p), "k": nat(k), "windows": ws,
                        "log_digits": true, "pre256_idx": idx, "cls": format!("{}/{}", cls, pc)}));
        if ops.len() >= per {
            sessions.push(std::mem::replace(&mut ops, vec![]));
        }
    }
    // scalars at and above r on points OUTSIDE the order-r subgroup ([k]P and [k mod r]P differ there)
    {
        let fr = fr_info();
        let big: Vec<(W, &str)> = vec![(fr.p.clone(), "r"), (w_add_small(&fr.p, 1), "r+1"), (w_add_small(&fr.p, 12345), "r+12345"),
                                       (w_ones(256, 4), "2^256-1"), (w_or(&fr.p, &w_pow2(255, 4)), "r+2^255"), (w_pow2(255, 4), "2^255")];
        for (pi, (p, pc)) in pool.iter().enumerate() {
            if !["full-order", "order-3", "small-x", "small-x-c1"].contains(pc) {
                continue;
            }
            for (bi, (k, kc)) in big.iter().enumerate() {
                if !thorough && !is1 && (pi + bi) % 3 != 0 {
                    continue;
                }
                ops.push(json!({"op": "smul", "g": g, "p": proj_to_j(p), "k": nat(k), "windows": [4],
                                "log_digits": false, "pre256_idx": [1, 128], "cls": format!("{}/{}", kc, pc)}));
                if ops.len() >= per {
                    sessions.push(std::mem::replace(&mut ops, vec![]));
                }
            }
        }
    }
    if thorough {
        // the largest windows, a few cases only (tables of 2^21 points)
        for w in [17u64, 19, 21, 22].iter() {
            let (p, _) = &pool[3];
            let k = rand_scalar_bits(r, 255);
            ops.push(json!({"op": "smul", "g": g, "p": proj_to_j(p), "k": nat(&k), "windows": [w],
                            "log_digits": true, "pre256_idx": [], "cls": "big-window"}));
        }
    }
    sessions.push(std::mem::replace(&mut ops, vec![]));
    // context histories: one reused context per session
    let nh = if thorough { 40 } else { if is1 { 8 } else { 3 } };
    let lens = [3usize, 12, 70, 130, 200, 255];
    let nums: Vec<W> = vec![vec![1], vec![2], vec![10], vec![100], vec![5000], vec![200_000], vec![0], vec![0]];
    for h in 0..nh {
        let mut ops = vec![json!({"op": "wn", "g": g, "fn": "new"})];
        let bases = [&pool[0].0, &pool[3 + h % 3].0, &pool[6 + h % 2].0];
        for step in 0..(if is1 { 6 } else { 4 }) {
            let kind = *r.pick(&["base_scalars", "scalar_bases", "base_shared", "scalar_shared"]);
            if kind.starts_with("base") {
                let p = *r.pick(&bases);
                let n = r.pick(&nums).clone();
                let ks: Vec<Value> = (0..2).map(|_| { let l = *r.pick(&lens); nat(&rand_scalar_bits(r, l)) }).collect();
                ops.push(json!({"op": "wn", "g": g, "fn": kind, "p": proj_to_j(p), "n": nat(&n), "ks": ks,
                                "cls": format!("hist-step{}", step)}));
            } else {
                let len = *r.pick(&lens);
                let k = rand_scalar_bits(r, len);
                let ps: Vec<Value> = (0..2).map(|_| proj_to_j(*r.pick(&bases))).collect();
                ops.push(json!({"op": "wn", "g": g, "fn": kind, "k": nat(&k), "ps": ps,
                                "cls": format!("hist-step{}", step)}));
            }
        }
        sessions.push(ops);
    }
    // one reused context, the SAME base throughout, sizes (hence windows) rising, falling and
    // zig-zagging, in both staging orders and mixed: a table kept from an earlier call must never be
    // taken for the table of a later one
    {
        let sizes_n: [u64; 6] = [1, 2, 10, 100, 5000, 200_000];
        let sizes_l: [usize; 6] = [3, 12, 70, 130, 200, 255];
        let orders: [&[usize]; 4] = [&[0, 1, 2, 3, 4, 5], &[5, 4, 3, 2, 1, 0], &[0, 5, 1, 4, 2, 3], &[2, 2, 4, 4, 0, 0]];
        for (oi, ord) in orders.iter().enumerate() {
            if !thorough && !is1 && oi % 2 == 1 {
                continue;
            }
            let p = &pool[3 + oi % 3].0;
            let q = &pool[0].0;
            let mut a = vec![json!({"op": "wn", "g": g, "fn": "new"})];
            let mut b = vec![json!({"op": "wn", "g": g, "fn": "new"})];
            let mut c = vec![json!({"op": "wn", "g": g, "fn": "new"})];
            for (j, i) in ord.iter().enumerate() {
                let ks: Vec<Value> = (0..1).map(|_| nat(&rand_scalar_bits(r, 40 + 30 * j))).collect();
                a.push(json!({"op": "wn", "g": g, "fn": "base_scalars", "p": proj_to_j(p), "n": nat(&vec![sizes_n[*i]]), "ks": ks,
                              "cls": "same-base-windows"}));
                b.push(json!({"op": "wn", "g": g, "fn": "scalar_bases", "k": nat(&rand_scalar_bits(r, sizes_l[*i])), "ps": [proj_to_j(p)],
                              "cls": "same-base-windows"}));
                // mixed staging orders; every other step interleaves a different base
                if j % 2 == 0 {
                    c.push(json!({"op": "wn", "g": g, "fn": "base_scalars", "p": proj_to_j(p), "n": nat(&vec![sizes_n[*i]]),
                                  "ks": [nat(&rand_scalar_bits(r, 100))], "cls": "same-base-windows"}));
                } else {
                    let ps: Vec<Value> = if j % 4 == 1 { vec![proj_to_j(p)] } else { vec![proj_to_j(q), proj_to_j(p)] };
                    c.push(json!({"op": "wn", "g": g, "fn": "scalar_bases", "k": nat(&rand_scalar_bits(r, sizes_l[*i])), "ps": ps,
                                  "cls": "same-base-windows"}));
                }
            }
            sessions.push(a);
            sessions.push(b);
            sessions.push(c);
        }
    }
    // window recommendations: every bit length, thresholds
    let mut ops = vec![];
    ops.push(json!({"op": "wnrec", "g": g, "fn": "scalar", "k": [], "cls": "bitlen"}));
    for b in 1..=256usize {
        ops.push(json!({"op": "wnrec", "g": g, "fn": "scalar", "k": nat(&rand_scalar_bits(r, b)), "cls": "bitlen"}));
    }
    for e in 0..64u32 {
        let x = 1u64 << e;
        for d in [x.wrapping_sub(1), x, x.wrapping_add(1)].iter() {
            ops.push(json!({"op": "wnrec", "g": g, "fn": "num", "n": nat(&vec![*d]), "cls": "threshold"}));
        }
    }
    for n in 0..600u64 {
        ops.push(json!({"op": "wnrec", "g": g, "fn": "num", "n": nat(&vec![n]), "cls": "threshold"}));
    }
    ops.push(json!({"op": "wnrec", "g": g, "fn": "num", "n": nat(&vec![u64::MAX]), "cls": "threshold"}));
    sessions.push(ops);
}

fn wl_c02(seed: u64, tier: &str) -> Vec<Vec<Value>> {
    let mut r = Rng(seed.wrapping_mul(202) ^ 2);
    let mut sessions = vec![];
    wl_c02_group::<G1>(&mut r, seed, tier == "thorough", &mut sessions);
    wl_c02_group::<G2>(&mut r, seed + 7, tier == "thorough", &mut sessions);
    sessions.retain(|s| !s.is_empty());
    sessions
}

fn wl_c10_group<G: Grp>(r: &mut Rng, seed: u64, thorough: bool, sessions: &mut Vec<Vec<Value>>)
where
    G: CurveProjective<Scalar = Fr>,
    G::Base: J,
    G::Affine: CurveAffine<Projective = G, Base = G::Base, Scalar = Fr>,
{
    let g = G::NAME;
    let is1 = g == "G1";
    let mut rng = xs(seed ^ 0x10);
    let sub: Vec<G::Affine> = (0..4).map(|_| G::random(&mut rng).into_affine()).collect();
    let gen = G::one().into_affine();
    let gen_e = endo_img::<G>(&gen, false);
    let gen_e2 = endo_img::<G>(&gen, true);
    let full: Vec<G::Affine> = (0..2).map(|_| full_order_point::<G>(r)).collect();
    let zero = <G::Affine as CurveAffine>::zero();
    let tiny: G::Affine = if is1 {
        let z = vec![0u64; 6];
        j_to_proj::<G>(&json!([nat(&z), nat(&w_add_small(&z, 2)), nat(&w_add_small(&z, 1))])).into_affine()
    } else {
        small_x_point::<G>(1, false)
    };
    let mut neg0 = sub[0];
    neg0.negate();
    let aj = |p: &G::Affine| aff_to_j(p);
    let z4 = vec![0u64; 4];
    let ones255 = w_ones(255, 4);
    let mut ops: Vec<Value> = vec![];
    let mut push = |ops: &mut Vec<Value>, sessions: &mut Vec<Vec<Value>>, v: Value| {
        ops.push(v);
        if ops.len() >= 4 {
            sessions.push(std::mem::replace(ops, vec![]));
        }
    };
    // shapes, small n, every window 1..=20 (quick: a rotating subset per shape)
    let shapes: Vec<(&str, Vec<Value>, Vec<W>)> = vec![
        ("empty", vec![], vec![]),
        ("single", vec![aj(&gen)], vec![rand_scalar_bits(r, 255)]),
        ("zero-scalar", vec![aj(&sub[0]), aj(&sub[1])], vec![z4.clone(), rand_scalar_bits(r, 200)]),
        ("all-zero-scalars", vec![aj(&sub[0]), aj(&sub[1])], vec![z4.clone(), z4.clone()]),
        ("ones", vec![aj(&sub[0]), aj(&sub[1])], vec![ones255.clone(), ones255.clone()]),
        ("duplicate-points", vec![aj(&sub[0]), aj(&sub[0]), aj(&sub[0])],
            { let k = rand_scalar_bits(r, 255); vec![k.clone(), k.clone(), rand_scalar_bits(r, 254)] }),
        ("inverse-pair", vec![aj(&sub[0]), aj(&neg0)], { let k = rand_scalar_bits(r, 255); vec![k.clone(), k] }),
        ("inverse-pair-2", vec![aj(&sub[0]), aj(&neg0), aj(&sub[1])],
            vec![rand_scalar_bits(r, 255), rand_scalar_bits(r, 255), rand_scalar_bits(r, 13)]),
        ("identity-point", vec![aj(&zero), aj(&sub[2]), aj(&zero)],
            vec![rand_scalar_bits(r, 255), rand_scalar_bits(r, 255), ones255.clone()]),
        ("more-points", vec![aj(&sub[0]), aj(&sub[1]), aj(&sub[2])], vec![rand_scalar_bits(r, 255)]),
        ("more-scalars", vec![aj(&sub[3])], vec![rand_scalar_bits(r, 255), rand_scalar_bits(r, 255), ones255.clone()]),
        ("points-only", vec![aj(&sub[3])], vec![]),
        ("scalars-only", vec![], vec![rand_scalar_bits(r, 77)]),
        ("rand3", vec![aj(&sub[1]), aj(&sub[2]), aj(&sub[3])],
            vec![rand_scalar_bits(r, 255), rand_scalar_bits(r, 129), rand_scalar_bits(r, 64)]),
        // scalars in [r, 2^255) (not reduced representatives) on subgroup points
        ("scalars-at-least-r", vec![aj(&sub[0]), aj(&sub[1]), aj(&sub[2])],
            vec![fr_info().p.clone(), w_add_small(&fr_info().p, 5), ones255.clone()]),
        // curve points outside the order-r subgroup ([r]P is not the identity): the sum is still
        // the sum of [k_i]P_i with k_i the integer given
        ("outside-subgroup", vec![aj(&full[0]), aj(&full[1]), aj(&sub[0])],
            vec![rand_scalar_bits(r, 255), rand_scalar_bits(r, 100), rand_scalar_bits(r, 255)]),
        ("outside-subgroup-scalars-at-least-r", vec![aj(&full[0]), aj(&full[1]), aj(&full[0])],
            vec![w_add_small(&fr_info().p, 5), ones255.clone(), fr_info().p.clone()]),
        // same ordinate, different abscissa
        ("same-ordinate", vec![aj(&gen), aj(&gen_e), aj(&gen_e2)],
            vec![rand_scalar_bits(r, 255), rand_scalar_bits(r, 255), LAMBDA.to_vec()]),
        // a point of tiny order (G1: (0, 2) of order 3; G2: a curve point with small abscissa) with scalars
        // made of a few of the bits 2^(32 k) (entries of a precomputed table that are the identity)
        ("small-order", vec![aj(&tiny), aj(&gen), aj(&zero)],
            vec![w_or(&w_or(&w_pow2(0, 4), &w_pow2(32, 4)), &w_pow2(64, 4)), w_pow2(33, 4),
                 w_or(&w_pow2(96, 4), &w_pow2(128, 4))]),
        ("small-order-2", vec![aj(&tiny), aj(&tiny)],
            vec![w_or(&w_or(&w_pow2(0, 4), &w_pow2(32, 4)), &w_or(&w_pow2(64, 4), &w_or(&w_pow2(96, 4), &w_or(&w_pow2(128, 4), &w_pow2(160, 4))))),
                 rand_scalar_bits(r, 255)]),
    ];
    // scalars of the catalogue (below 2^255): zero words inside, word boundaries, r-1, lambda, ...
    let mut shapes = shapes;
    {
        let cat: Vec<(W, &'static str)> = scalar_catalogue(r, false).into_iter().filter(|(k, _)| k[3] >> 63 == 0).collect();
        for (ci, chunk) in cat.chunks(3).enumerate() {
            if ci % 3 != (seed % 3) as usize && !thorough {
                continue;
            }
            let pts: Vec<Value> = (0..chunk.len()).map(|i| aj(&sub[(ci + i) % 4])).collect();
            shapes.push(("catalogue-scalars", pts, chunk.iter().map(|(k, _)| k.clone()).collect()));
        }
    }
    for (si, (name, pts, ks)) in shapes.iter().enumerate() {
        let kj: Vec<Value> = ks.iter().map(|k| nat(k)).collect();
        push(&mut ops, sessions, json!({"op": "msm", "g": g, "fn": "default", "points": pts, "scalars": kj, "cls": name}));
        push(&mut ops, sessions, json!({"op": "msm", "g": g, "fn": "precomp", "points": pts, "scalars": kj, "cls": name}));
        let ws: Vec<u64> = if thorough || (is1 && si % 4 == 1) { (1..=20).collect() }
                           else { vec![1 + (si as u64 * 3) % 20, 1 + (si as u64 * 7 + 5) % 20, 20 - (si as u64 % 4)] };
        for w in ws {
            push(&mut ops, sessions, json!({"op": "msm", "g": g, "fn": "pippenger", "window": w,
                                             "points": pts, "scalars": kj, "cls": name}));
        }
    }
    // a single bit at every position (every offset inside every window), and two bits straddling
    // each word boundary, for every window: two points so that buckets interact
    let positions: Vec<usize> = if thorough { (0..255).collect() }
                                else { (0..255).filter(|b| b % 64 < 3 || b % 64 > 60 || b % 17 == 0).collect() };
    for (bi, b) in positions.iter().enumerate() {
        let k1 = w_pow2(*b, 4);
        let k2 = if *b > 0 { w_or(&w_pow2(*b, 4), &w_pow2(*b - 1, 4)) } else { w_pow2(0, 4) };
        let ws: Vec<u64> = if thorough { (1..=20).collect() } else { vec![1 + (bi as u64) % 20, 1 + (bi as u64 * 7 + 3) % 20] };
        for w in ws {
            if !is1 && !thorough && bi % 4 != 0 {
                continue;
            }
            push(&mut ops, sessions, json!({"op": "msm", "g": g, "fn": "pippenger", "window": w,
                "points": [aj(&sub[0]), aj(&sub[1])], "scalars": [nat(&k1), nat(&k2)], "cls": "bit-position"}));
        }
    }
    sessions.push(std::mem::replace(&mut ops, vec![]));
    // a call that ABORTS half-way (bit 255 set: the bucket method's own assertion fires after earlier
    // scalars were scattered; remembered, not judged), then valid calls of every kind on the same thread
    for w0 in [4u64, 9].iter() {
        let mut s = vec![];
        let pts: Vec<Value> = vec![aj(&sub[0]), aj(&sub[1]), aj(&sub[2]), aj(&sub[3])];
        let top = { let mut w = rand_scalar_bits(r, 250); w[3] |= 0x7c00_0000_0000_0000; w };
        s.push(json!({"op": "msm", "g": g, "fn": "pippenger", "window": w0, "points": pts,
                      "scalars": [nat(&top), nat(&top), nat(&top), nat(&w_pow2(255, 4))], "xabort": true, "cls": "aborting-call"}));
        let ks: Vec<Value> = (0..4).map(|_| nat(&rand_scalar_bits(r, 255))).collect();
        for w in [1u64, 2, 3, 4, 5, 7, 9, 12].iter() {
            s.push(json!({"op": "msm", "g": g, "fn": "pippenger", "window": w, "points": pts, "scalars": ks, "cls": "after-aborting-call"}));
        }
        s.push(json!({"op": "msm", "g": g, "fn": "default", "points": pts, "scalars": ks, "cls": "after-aborting-call"}));
        s.push(json!({"op": "msm", "g": g, "fn": "precomp", "points": pts, "scalars": ks, "cls": "after-aborting-call"}));
        sessions.push(s);
    }
    // white box: per-window records of the bucket method for every window size
    for w in 1..=20u64 {
        if !is1 && !thorough && w % 4 != 0 {
            continue;
        }
        let ks = vec![rand_scalar_bits(r, 255), w_ones(255, 4), w_or(&w_pow2(64 * (1 + (w as usize % 3)), 4), &w_pow2(63, 4)),
                      rand_scalar_bits(r, 1 + (w as usize * 12) % 250)];
        let kj: Vec<Value> = ks.iter().map(|k| nat(k)).collect();
        let big = w > 14; // few points and short scalars keep the running sums of huge windows cheap
        let pts: Vec<Value> = if big { vec![aj(&sub[0]), aj(&sub[1])] } else { vec![aj(&sub[0]), aj(&sub[1]), aj(&neg0), aj(&sub[2])] };
        let kj2: Vec<Value> = if big { vec![nat(&w_pow2(w as usize * 3 % 255, 4)), nat(&w_ones(w as usize, 4))] } else { kj };
        sessions.push(vec![json!({"op": "msm", "g": g, "fn": "pippenger_w", "window": w, "points": pts, "scalars": kj2,
                                  "cls": format!("whitebox-w{}", w)})]);
    }
    // large inputs over the labelled table; n straddles every boundary of the window heuristic
    let bounds: Vec<usize> = if thorough {
        vec![19, 20, 42, 43, 104, 105, 238, 239, 577, 578, 1257, 1258, 3463, 3464, 6491, 6492, 17145, 17146, 33675, 33676]
    } else if is1 {
        vec![19, 20, 42, 43, 104, 105, 238, 239, 577, 578, 1257, 1258, 3463, 3464]
    } else {
        vec![19, 20, 43, 105, 239]
    };
    for n in bounds {
        let a: Vec<i64> = (0..n).map(|_| r.below(17) as i64 - 8).collect();
        let ks: Vec<Value> = (0..n).map(|i| {
            let b = if i % 5 == 0 { 255 } else { 1 + r.below(255) as usize };
            nat(&rand_scalar_bits(r, b))
        }).collect();
        sessions.push(vec![json!({"op": "msml", "g": g, "fn": "default", "base": aj(&sub[n % 4]),
                                  "a": a, "scalars": ks, "cls": format!("heuristic-n{}", n)})]);
    }
    for (i, w) in (1..=20u64).enumerate() {
        if !thorough && !is1 && i % 3 != 0 {
            continue;
        }
        let n = 30 + 3 * i;
        let a: Vec<i64> = (0..n).map(|_| r.below(17) as i64 - 8).collect();
        let ks: Vec<Value> = (0..n).map(|_| nat(&rand_scalar_bits(r, 255))).collect();
        sessions.push(vec![json!({"op": "msml", "g": g, "fn": "pippenger", "window": w, "base": aj(&gen),
                                  "a": a, "scalars": ks, "cls": format!("table-w{}", w)})]);
    }
    {
        let n = 40;
        let a: Vec<i64> = (0..n).map(|_| r.below(17) as i64 - 8).collect();
        let ks: Vec<Value> = (0..n).map(|_| nat(&rand_scalar_bits(r, 255))).collect();
        sessions.push(vec![json!({"op": "msml", "g": g, "fn": "precomp", "base": aj(&sub[1]),
                                  "a": a, "scalars": ks, "cls": "table-precomp"})]);
    }
    // the table-driven variant on long inputs (the table is one big slice: 256 entries per point)
    for n in (if thorough { vec![1023usize, 1024, 1025, 1100, 2049] } else if is1 { vec![1024, 1025, 1100] } else { vec![] }).iter() {
        let a: Vec<i64> = (0..*n).map(|i| ((i * 7 + i / 13) % 17) as i64 - 8).collect();
        let ks: Vec<Value> = (0..*n).map(|i| nat(&rand_scalar_bits(r, if i % 7 == 0 { 255 } else { 64 }))).collect();
        sessions.push(vec![json!({"op": "msml", "g": g, "fn": "precomp", "base": aj(&sub[2]),
                                  "a": a, "scalars": ks, "cls": format!("table-precomp-n{}", n)})]);
    }
    // the window heuristic itself
    let mut ops = vec![];
    for n in 0..700u64 {
        ops.push(json!({"op": "pipwin", "g": g, "n": nat(&vec![n]), "cls": "heuristic"}));
    }
    for e in 0..64u32 {
        let x = 1u64 << e;
        for d in [x.wrapping_sub(1), x, x.wrapping_add(1)].iter() {
            ops.push(json!({"op": "pipwin", "g": g, "n": nat(&vec![*d]), "cls": "heuristic"}));
        }
    }
    for b in [1258u64, 3464, 6492, 17146, 33676, 60319, 218189, 303280, 543651].iter() {
        for d in [b - 1, *b, b + 1].iter() {
            ops.push(json!({"op": "pipwin", "g": g, "n": nat(&vec![*d]), "cls": "heuristic"}));
        }
    }
    sessions.push(ops);
}

fn wl_c10(seed: u64, tier: &str) -> Vec<Vec<Value>> {
    let mut r = Rng(seed.wrapping_mul(1010) ^ 10);
    let mut sessions = vec![];
    wl_c10_group::<G1>(&mut r, seed, tier == "thorough", &mut sessions);
    wl_c10_group::<G2>(&mut r, seed + 3, tier == "thorough", &mut sessions);
    sessions.retain(|s| !s.is_empty());
    sessions
}

pub fn generate(name: &str, seed: u64, tier: &str) -> Vec<Vec<Value>> {
    let mut sessions = generate_base(name, seed, tier);
    // "first call on a thread": sessions run on FRESH threads that start with one variant (group,
    // field, expander, ...) and continue with the other - lazily initialised per-thread state must not
    // depend on which variant came first.  Built from stateless operations already in the workload.
    let stateless = |o: &Value| !["cm", "wn", "st"].contains(&o["op"].as_str().unwrap_or(""));
    let key = |o: &Value| format!("{}|{}|{}", o["g"], o["f"], o["x"]);
    let mut by: Vec<(String, Vec<Value>)> = vec![];
    for s in sessions.iter() {
        for o in s.iter().filter(|o| stateless(o) && o.get("xabort").is_none()) {
            let k = key(o);
            match by.iter_mut().find(|(kk, _)| *kk == k) {
                Some((_, v)) => { if v.len() < 3 { v.push(o.clone()); } }
                None => by.push((k, vec![o.clone()])),
            }
        }
    }
    if by.len() >= 2 {
        let n = by.len();
        for (a, b) in [(n - 1, 0usize), (0, n - 1), (n / 2, 0)].iter() {
            if a == b {
                continue;
            }
            let mut s: Vec<Value> = vec![];
            s.extend(by[*a].1.iter().take(2).cloned());
            s.extend(by[*b].1.iter().take(2).cloned());
            s.extend(by[*a].1.iter().skip(2).cloned());
            s.extend(by[*b].1.iter().skip(2).cloned());
            for o in s.iter_mut() {
                o.as_object_mut().unwrap().insert("cls".into(), json!("fresh-thread-variant-order"));
            }
            s[0].as_object_mut().unwrap().insert("fresh_thread".into(), json!(true));
            sessions.push(s);
        }
    }
    sessions
}

fn generate_base(name: &str, seed: u64, tier: &str) -> Vec<Vec<Value>> {
    match name {
        "c01" => wl_c01(seed, tier),
        "c02" => wl_c02(seed, tier),
        "c10" => wl_c10(seed, tier),
        "c04" => crate::wl_enc::wl_c04(seed, tier),
        "c05" => crate::wl_enc::wl_c05(seed, tier),
        "c07" => crate::wl_enc::wl_c07(seed, tier),
        "c19" => crate::wl_enc::wl_c19(seed, tier),
        "c13" => crate::wl_hash::wl_c13(seed, tier),
        "c06" => crate::wl_hash::wl_c06(seed, tier),
        "c14" => crate::wl_hash::wl_c14(seed, tier),
        "c15" => crate::wl_hash::wl_c15(seed, tier),
        "c16" => crate::wl_hash::wl_c16(seed, tier),
        "c17" => crate::wl_hash::wl_c17(seed, tier),
        "c03" => crate::wl_pair::wl_c03(seed, tier),
        "c11" => crate::wl_pair::wl_c11(seed, tier),
        "c12" => crate::wl_pair::wl_c12(seed, tier),
        "c08" => wl_c08(seed, tier),
        "c09" => wl_c09(seed, tier),
        "c18" => wl_c18(seed, tier),
        _ => panic!("unknown workload {}", name),
    }
}
