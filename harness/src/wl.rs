//! Seeded workload generators (impl -> spec direction).  They only *choose
//! inputs*; nothing here knows an expected value.  Limb helpers below are used
//! to build boundary operands (p-1, 2^64k +- 1, ...), never to predict results.
use crate::j::*;
use ff::PrimeField;
use pairing::bls12_381::{Fq, Fr};
use serde_json::{json, Value};

pub struct Rng(pub u64);
impl Rng {
    pub fn next(&mut self) -> u64 {
        // splitmix64
        self.0 = self.0.wrapping_add(0x9e3779b97f4a7c15);
        let mut z = self.0;
        z = (z ^ (z >> 30)).wrapping_mul(0xbf58476d1ce4e5b9);
        z = (z ^ (z >> 27)).wrapping_mul(0x94d049bb133111eb);
        z ^ (z >> 31)
    }
    pub fn below(&mut self, n: u64) -> u64 {
        self.next() % n
    }
    pub fn pick<'a, T>(&mut self, v: &'a [T]) -> &'a T {
        &v[self.below(v.len() as u64) as usize]
    }
    pub fn bytes(&mut self, n: usize) -> Vec<u8> {
        (0..n).map(|_| self.next() as u8).collect()
    }
}

pub type W = Vec<u64>; // little-endian 64-bit words

pub fn w_lt(a: &W, b: &W) -> bool {
    for i in (0..a.len().max(b.len())).rev() {
        let (x, y) = (*a.get(i).unwrap_or(&0), *b.get(i).unwrap_or(&0));
        if x != y {
            return x < y;
        }
    }
    false
}
pub fn w_sub_small(a: &W, s: u64) -> W {
    let mut r = a.clone();
    let mut borrow = s;
    for x in r.iter_mut() {
        let (v, b) = x.overflowing_sub(borrow);
        *x = v;
        borrow = b as u64;
        if borrow == 0 {
            break;
        }
    }
    r
}
pub fn w_add_small(a: &W, s: u64) -> W {
    let mut r = a.clone();
    let mut carry = s;
    for x in r.iter_mut() {
        let (v, c) = x.overflowing_add(carry);
        *x = v;
        carry = c as u64;
        if carry == 0 {
            break;
        }
    }
    r
}
pub fn w_shr1(a: &W) -> W {
    let mut r = a.clone();
    let mut carry = 0u64;
    for x in r.iter_mut().rev() {
        let nc = *x & 1;
        *x = (*x >> 1) | (carry << 63);
        carry = nc;
    }
    r
}
pub fn w_pow2(k: usize, n: usize) -> W {
    let mut r = vec![0u64; n];
    r[k / 64] = 1u64 << (k % 64);
    r
}
pub fn w_ones(bits: usize, n: usize) -> W {
    let mut r = vec![0u64; n];
    for i in 0..bits {
        r[i / 64] |= 1u64 << (i % 64);
    }
    r
}
pub fn nat(w: &W) -> Value {
    words_to_nat(w)
}

pub struct FieldInfo {
    pub name: &'static str,
    pub p: W,
    pub nw: usize,
    pub bits: usize,
}
pub fn fq_info() -> FieldInfo {
    FieldInfo { name: "Fq", p: Fq::char().as_ref().to_vec(), nw: 6, bits: 381 }
}
pub fn fr_info() -> FieldInfo {
    FieldInfo { name: "Fr", p: Fr::char().as_ref().to_vec(), nw: 4, bits: 255 }
}

/// uniformly random canonical element (rejection sampling on the bit length)
pub fn rand_elem(r: &mut Rng, f: &FieldInfo) -> W {
    loop {
        let mut w: W = (0..f.nw).map(|_| r.next()).collect();
        let top = f.bits % 64;
        if top != 0 {
            w[f.nw - 1] &= (1u64 << top) - 1;
        }
        if w_lt(&w, &f.p) {
            return w;
        }
    }
}
pub fn rand_wide(r: &mut Rng, nw: usize) -> W {
    (0..nw).map(|_| r.next()).collect()
}

/// boundary catalogue of canonical elements
pub fn catalogue(f: &FieldInfo) -> Vec<W> {
    let mut v: Vec<W> = vec![];
    let z = vec![0u64; f.nw];
    for s in 0..4 {
        v.push(w_add_small(&z, s));
    }
    for s in 1..4 {
        v.push(w_sub_small(&f.p, s));
    }
    let half = w_shr1(&f.p); // (p-1)/2
    v.push(half.clone());
    v.push(w_add_small(&half, 1));
    v.push(w_sub_small(&half, 1));
    for k in 1..f.nw {
        let t = w_pow2(64 * k, f.nw);
        if w_lt(&t, &f.p) {
            v.push(t.clone());
            v.push(w_add_small(&t, 1));
            v.push(w_sub_small(&t, 1));
        }
    }
    v.push(w_ones(f.bits - 1, f.nw));
    v.push(w_pow2(f.bits - 1, f.nw));
    // words of all ones in the low part
    for k in 1..f.nw {
        v.push(w_ones(64 * k, f.nw));
    }
    // alternating pattern below p
    let mut alt: W = vec![0xaaaaaaaaaaaaaaaa; f.nw];
    alt[f.nw - 1] &= (1u64 << ((f.bits - 1) % 64)) - 1;
    v.push(alt);
    v.retain(|x| w_lt(x, &f.p));
    v
}

fn fp(f: &FieldInfo, func: &str, a: &W) -> Value {
    json!({"op": "fp", "f": f.name, "fn": func, "a": nat(a)})
}
fn fp2(f: &FieldInfo, func: &str, a: &W, b: &W) -> Value {
    json!({"op": "fp", "f": f.name, "fn": func, "a": nat(a), "b": nat(b)})
}
fn rp(f: &FieldInfo, func: &str, a: &W) -> Value {
    json!({"op": "repr", "f": f.name, "fn": func, "a": nat(a)})
}

/// C08: prime-field arithmetic and the representation type
fn wl_c08(seed: u64, tier: &str) -> Vec<Vec<Value>> {
    let mut sessions = vec![];
    let thorough = tier == "thorough";
    for f in [fq_info(), fr_info()].iter() {
        let cat = catalogue(f);
        let mut r = Rng(seed ^ f.bits as u64);
        // catalogue x catalogue binary ops
        let mut ops = vec![];
        for a in &cat {
            for b in &cat {
                for func in ["add", "sub", "mul", "cmp", "eq"].iter() {
                    ops.push(fp2(f, func, a, b));
                }
            }
        }
        sessions.push(ops);
        let mut ops = vec![];
        for a in &cat {
            for func in ["neg", "dbl", "sqr", "inv", "is_zero", "into_repr"].iter() {
                ops.push(fp(f, func, a));
            }
        }
        // exponents of 0..12 words
        let exps: Vec<(W, usize)> = {
            let mut e: Vec<(W, usize)> = vec![(vec![], 0), (vec![0], 1), (vec![1], 1), (vec![2], 1)];
            e.push((w_sub_small(&f.p, 1), f.nw));
            e.push((f.p.clone(), f.nw));
            e.push((w_sub_small(&f.p, 2), f.nw));
            e.push((vec![0, 1], 2));
            e.push((vec![0, 0, 0], 3)); // zero given with several words
            for k in 1..=12 {
                e.push((rand_wide(&mut r, k), k));
            }
            e.push((w_pow2(64 * 7, 8), 8));
            e
        };
        for a in cat.iter().take(12).chain(std::iter::once(&rand_elem(&mut r, f))) {
            for (e, n) in &exps {
                ops.push(json!({"op": "fp", "f": f.name, "fn": "pow", "a": nat(a), "e": nat(e), "ew": n}));
            }
        }
        // from_repr below / at / above the modulus
        let mut reprs: Vec<W> = cat.clone();
        reprs.push(f.p.clone());
        reprs.push(w_add_small(&f.p, 1));
        reprs.push(w_ones(64 * f.nw, f.nw));
        reprs.push(w_pow2(f.bits, f.nw));
        reprs.push(w_pow2(64 * f.nw - 1, f.nw));
        for _ in 0..40 {
            reprs.push(rand_wide(&mut r, f.nw));
        }
        // only the top word too large
        let mut t = f.p.clone();
        t[f.nw - 1] += 1;
        t[0] = 0;
        reprs.push(t);
        for n in &reprs {
            ops.push(json!({"op": "fp", "f": f.name, "fn": "from_repr", "n": nat(n)}));
        }
        sessions.push(ops);
        // representation type
        let mut ops = vec![];
        let mut rv: Vec<W> = reprs.clone();
        for _ in 0..20 {
            rv.push(rand_wide(&mut r, f.nw));
        }
        let w = 64 * f.nw as u64;
        for a in &rv {
            for func in ["div2", "mul2", "num_bits", "is_odd", "is_even", "is_zero", "write_be", "write_le"].iter() {
                ops.push(rp(f, func, a));
            }
            for n in [0u64, 1, 31, 63, 64, 65, 127, 128, 129, w - 1, w, w + 1, 1000, 2147483647].iter() {
                ops.push(json!({"op": "repr", "f": f.name, "fn": "shr", "a": nat(a), "n": n}));
                ops.push(json!({"op": "repr", "f": f.name, "fn": "shl", "a": nat(a), "n": n}));
            }
        }
        for _ in 0..(if thorough { 3000 } else { 300 }) {
            let a = r.pick(&rv).clone();
            let b = r.pick(&rv).clone();
            ops.push(json!({"op": "repr", "f": f.name, "fn": "cmp", "a": nat(&a), "b": nat(&b)}));
            ops.push(json!({"op": "repr", "f": f.name, "fn": "eq", "a": nat(&a), "b": nat(&b)}));
            // preconditions: no carry out of the width / no borrow
            let (mut x, mut y) = (a.clone(), b.clone());
            x[f.nw - 1] >>= 1;
            y[f.nw - 1] >>= 1;
            ops.push(json!({"op": "repr", "f": f.name, "fn": "add_nocarry", "a": nat(&x), "b": nat(&y)}));
            let (hi, lo) = if w_lt(&a, &b) { (b, a) } else { (a, b) };
            ops.push(json!({"op": "repr", "f": f.name, "fn": "sub_noborrow", "a": nat(&hi), "b": nat(&lo)}));
        }
        for len in [0usize, 1, 8 * f.nw - 1, 8 * f.nw, 8 * f.nw + 1, 8 * f.nw + 9].iter() {
            for _ in 0..3 {
                let b = r.bytes(*len);
                ops.push(json!({"op": "repr", "f": f.name, "fn": "read_be", "bytes": bytes_to_j(&b)}));
                ops.push(json!({"op": "repr", "f": f.name, "fn": "read_le", "bytes": bytes_to_j(&b)}));
            }
        }
        for x in [0u64, 1, 2, 0xffff, 0x10000, u64::MAX, 1u64 << 63].iter() {
            ops.push(json!({"op": "repr", "f": f.name, "fn": "from_u64", "a": nat(&vec![*x])}));
        }
        ops.push(json!({"op": "fp", "f": f.name, "fn": "consts"}));
        sessions.push(ops);
        // random operands
        let n = if thorough { 200_000 } else { 6_000 };
        let per = 2_000;
        let mut ops = vec![];
        for i in 0..n {
            let a = if r.below(8) == 0 { r.pick(&cat).clone() } else { rand_elem(&mut r, f) };
            let b = if r.below(8) == 0 { r.pick(&cat).clone() } else { rand_elem(&mut r, f) };
            let func = *r.pick(&["add", "sub", "mul", "neg", "dbl", "sqr", "inv", "cmp", "pow", "eq"]);
            if func == "pow" {
                let k = 1 + r.below(6) as usize;
                let e = rand_wide(&mut r, k);
                ops.push(json!({"op": "fp", "f": f.name, "fn": "pow", "a": nat(&a), "e": nat(&e), "ew": k}));
            } else {
                ops.push(fp2(f, func, &a, &b));
            }
            if (i + 1) % per == 0 {
                sessions.push(std::mem::replace(&mut ops, vec![]));
            }
        }
        if !ops.is_empty() {
            sessions.push(ops);
        }
    }
    sessions
}

pub fn generate(name: &str, seed: u64, tier: &str) -> Vec<Vec<Value>> {
    match name {
        "c08" => wl_c08(seed, tier),
        _ => panic!("unknown workload {}", name),
    }
}
