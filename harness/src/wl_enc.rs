//! Workloads for encodings (C04, C05), subgroup membership (C07), streams (C19).
use crate::j::*;
use crate::wl::*;
use pairing::bls12_381::{Fr, G1, G2};
use pairing::{CurveAffine, CurveProjective, EncodedPoint};
use serde_json::{json, Value};

/// big-endian bytes of little-endian words
fn be(w: &W) -> Vec<u8> {
    let mut v = vec![];
    for x in w.iter().rev() {
        v.extend_from_slice(&x.to_be_bytes());
    }
    v
}

fn enc_c<G: Grp>(p: &G::Affine) -> Vec<u8> {
    p.into_compressed().as_ref().to_vec()
}
fn enc_u<G: Grp>(p: &G::Affine) -> Vec<u8> {
    p.into_uncompressed().as_ref().to_vec()
}

fn dec(g: &str, form: &str, b: &[u8], cls: &str) -> Value {
    json!({"op": "decode", "g": g, "form": form, "bytes": bytes_to_j(b), "cls": cls})
}

fn fr_rr() -> [u64; 4] {
    let p = fr_info().p;
    [p[0], p[1], p[2], p[3]]
}

fn affine_pool<G: Grp>(r: &mut Rng, seed: u64) -> Vec<(G::Affine, &'static str)>
where
    G::Base: J,
    G::Affine: CurveAffine<Projective = G, Base = G::Base>,
{
    point_pool::<G>(r, seed, false)
        .into_iter()
        .map(|(p, c)| (p.into_affine(), c))
        .chain(std::iter::once((<G::Affine as CurveAffine>::zero(), "identity")))
        .collect()
}

fn c04_group<G: Grp>(r: &mut Rng, seed: u64, thorough: bool, sessions: &mut Vec<Vec<Value>>)
where
    G::Base: J,
    G::Affine: CurveAffine<Projective = G, Base = G::Base>,
{
    let g = G::NAME;
    let fq = fq_info();
    let mut pool = affine_pool::<G>(r, seed);
    // valid points with a coordinate in the top sliver below q / with a zero leading byte
    for (p, c) in extreme_coord_points::<G>(seed, if g == "G1" { 400_000 } else { 300_000 }, 1) {
        pool.push((p.into_affine(), c));
    }
    let lc = <<G::Affine as CurveAffine>::Compressed as EncodedPoint>::size();
    let lu = <<G::Affine as CurveAffine>::Uncompressed as EncodedPoint>::size();
    let per = if g == "G1" { 12 } else { 5 };
    let mut ops: Vec<Value> = vec![];
    let mut push = |ops: &mut Vec<Value>, v: Value| {
        ops.push(v);
        if ops.len() >= per {
            sessions.push(std::mem::replace(ops, vec![]));
        }
    };
    let scale = if thorough { 8 } else { 1 };
    for (form, len) in [("c", lc), ("u", lu)].iter() {
        // uniformly random strings, and every flag pattern forced on random tails
        for i in 0..(16 * scale) {
            let mut b = r.bytes(*len);
            if i >= 8 {
                b[0] = (b[0] & 0x1f) | (((i % 8) as u8) << 5);
            }
            push(&mut ops, dec(g, form, &b, "random-bytes"));
        }
        // in range x (and y) with each flag pattern: reaches the curve / root stage
        for i in 0..(16 * scale) {
            let mut b = vec![];
            for _ in 0..(*len / 48) {
                b.extend_from_slice(&be(&rand_elem(r, &fq)));
            }
            b[0] |= ((i % 8) as u8) << 5;
            push(&mut ops, dec(g, form, &b, "random-reduced"));
        }
        // valid encodings, then one bit flipped, then flags toggled
        for (p, cls) in pool.iter() {
            let b = if *form == "c" { enc_c::<G>(p) } else { enc_u::<G>(p) };
            push(&mut ops, dec(g, form, &b, &format!("valid/{}", cls)));
            // wrong form requested for these bytes is impossible (length); wrong flag instead
            for bit in [7usize, 6, 5].iter() {
                let mut c = b.clone();
                c[0] ^= 1 << bit;
                push(&mut ops, dec(g, form, &c, &format!("flag-toggled/{}", cls)));
            }
            for _ in 0..(2 * scale) {
                let mut c = b.clone();
                let k = r.below((*len * 8) as u64) as usize;
                c[k / 8] ^= 1 << (k % 8);
                push(&mut ops, dec(g, form, &c, &format!("bit-flip/{}", cls)));
            }
        }
        // infinity with stray bits at several byte positions
        for pos in [0usize, 1, 47, 48 % *len, *len - 1].iter() {
            let mut b = vec![0u8; *len];
            b[0] = if *form == "c" { 0xc0 } else { 0x40 };
            b[*pos] |= 1 << r.below(5);
            push(&mut ops, dec(g, form, &b, "infinity-stray"));
        }
        {
            let mut b = vec![0u8; *len];
            b[0] = if *form == "c" { 0xe0 } else { 0x60 }; // infinity + sort flag
            push(&mut ops, dec(g, form, &b, "infinity-sort"));
        }
        // infinity flag with a non-zero payload of every shape a word-wise / accumulating zero test
        // could let through: one stray bit at EVERY byte, equal (and byte-wise opposite) bytes at aligned
        // distances, constant payloads, payloads made of one repeated block
        let inf0: u8 = if *form == "c" { 0xc0 } else { 0x40 };
        for pos in 0..*len {
            let mut b = vec![0u8; *len];
            b[0] = inf0;
            b[pos] |= 1 << r.below(if pos == 0 { 5 } else { 8 });
            push(&mut ops, dec(g, form, &b, "infinity-stray-everywhere"));
        }
        for dist in [1usize, 2, 4, 7, 8, 16, 24, 32, 48, 64, 96].iter() {
            for k in 0..3 {
                if *dist + 2 > *len {
                    continue;
                }
                let pos = 1 + r.below((*len - dist - 1) as u64) as usize;
                let v = 1 + r.below(255) as u8;
                let mut b = vec![0u8; *len];
                b[0] = inf0;
                b[pos] = v;
                b[pos + dist] = match k { 0 => v, 1 => v.wrapping_neg(), _ => !v };
                push(&mut ops, dec(g, form, &b, "infinity-cancelling-pair"));
            }
        }
        for v in [0x01u8, 0x80, 0xff, 0x55].iter() {
            let mut b = vec![*v; *len];
            b[0] = inf0;
            push(&mut ops, dec(g, form, &b, "infinity-constant-payload"));
            let mut b = vec![*v; *len];
            b[0] = inf0 | (*v & 0x1f);
            push(&mut ops, dec(g, form, &b, "infinity-constant-payload"));
        }
        for blk in [2usize, 4, 8, 16, 24, 48].iter() {
            let w = r.bytes(*blk);
            let mut b: Vec<u8> = (0..*len).map(|i| w[i % blk]).collect();
            b[0] = inf0;
            for i in 0..*blk { if i % blk == 0 { b[i] = inf0; } }
            // keep the repetition exact except for the flag byte: positions congruent to 0 carry w[0]
            push(&mut ops, dec(g, form, &b, "infinity-repeated-block"));
            // only two copies of the block, far apart
            let mut b = vec![0u8; *len];
            b[0] = inf0;
            if *len < 2 * blk + 32 {
                continue;
            }
            let a0 = 8 * (1 + r.below(((*len - 2 * blk) / 16) as u64) as usize);
            let a1 = *len - blk - 8 * r.below(2) as usize;
            if a0 + blk <= a1 {
                b[a0..a0 + blk].copy_from_slice(&w);
                b[a1..a1 + blk].copy_from_slice(&w);
                push(&mut ops, dec(g, form, &b, "infinity-two-copies"));
            }
        }
        // the three spare top bits of every 48-byte field other than the first are VALUE bits:
        // setting any of them makes that coordinate unreduced
        for field in 1..(*len / 48) {
            for bit in [7u8, 6, 5].iter() {
                for (p, _) in pool.iter().take(3) {
                    let mut b = if *form == "c" { enc_c::<G>(p) } else { enc_u::<G>(p) };
                    b[48 * field] |= 1 << bit;
                    push(&mut ops, dec(g, form, &b, &format!("field{}-top-bit{}", field, bit)));
                }
            }
        }
        // coordinates out of range: exactly q, q+1, 2^381-1, only the top word too large, q-1 (in range)
        let mut top = fq.p.clone();
        top[5] += 1;
        top[0] = 0;
        let vals: Vec<(W, &str)> = vec![
            (fq.p.clone(), "coord=q"),
            (w_add_small(&fq.p, 1), "coord=q+1"),
            (w_ones(381, 6), "coord=2^381-1"),
            (top, "coord-top-word"),
            (w_sub_small(&fq.p, 1), "coord=q-1"),
        ];
        for field in 0..(*len / 48) {
            for (v, cls) in vals.iter() {
                // start from a valid encoding so that all other stages would pass
                let (p, _) = &pool[3];
                let mut b = if *form == "c" { enc_c::<G>(p) } else { enc_u::<G>(p) };
                let flags = b[0] & 0xe0;
                let vb = be(v);
                b[48 * field..48 * (field + 1)].copy_from_slice(&vb);
                if field == 0 {
                    b[0] |= flags;
                }
                push(&mut ops, dec(g, form, &b, &format!("{}/field{}", cls, field)));
            }
        }
    }
    sessions.push(std::mem::replace(&mut ops, vec![]));
}

pub fn wl_c04(seed: u64, tier: &str) -> Vec<Vec<Value>> {
    let mut r = Rng(seed.wrapping_mul(404) ^ 4);
    let mut sessions = vec![];
    c04_group::<G1>(&mut r, seed, tier == "thorough", &mut sessions);
    c04_group::<G2>(&mut r, seed + 1, tier == "thorough", &mut sessions);
    sessions.retain(|s| !s.is_empty());
    sessions
}

fn c05_group<G: Grp>(r: &mut Rng, seed: u64, thorough: bool, sessions: &mut Vec<Vec<Value>>)
where
    G: CurveProjective<Scalar = Fr>,
    G::Base: J,
    G::Affine: CurveAffine<Projective = G, Base = G::Base, Scalar = Fr>,
{
    let g = G::NAME;
    let per = if g == "G1" { 8 } else { 3 };
    let mut ops = vec![];
    let mut rng = xs(seed ^ 0x55);
    let n = if thorough { 200 } else { if g == "G1" { 40 } else { 14 } };
    let mut pts: Vec<(G, &str)> = point_pool::<G>(r, seed, g == "G1");
    pts.push((G::zero(), "identity"));
    for (p, c) in extreme_coord_points::<G>(seed, if g == "G1" { 400_000 } else { 300_000 }, 1) {
        pts.push((p, c));
    }
    for _ in 0..n {
        pts.push((G::random(&mut rng), "subgroup"));
    }
    // small multiples of the generator in non-normalized projective form
    let mut acc = G::one();
    for _ in 0..6 {
        acc.add_assign(&G::one());
        pts.push((acc, "small-multiple-proj"));
    }
    // identities in non-canonical projective form: from arithmetic (P - P, [r]P, P + (-P) mixed) and
    // with arbitrary X, Y
    {
        let base = pts[4].0;
        let mut a = base;
        a.sub_assign(&base);
        let mut b = base;
        let mut nb = base;
        nb.negate();
        b.add_assign_mixed(&nb.into_affine());
        let mut c = base;
        c.mul_assign(pairing::bls12_381::FrRepr(fr_rr()));
        let mut d = base;
        d.double();
        let mut nd = base;
        nd.negate();
        nd.double();
        d.add_assign(&nd);
        for (k, idp) in [a, b, c, d].iter().enumerate() {
            ops.push(json!({"op": "encode", "g": g, "pj": proj_to_j(idp), "cls": format!("identity-from-arithmetic-{}", k)}));
        }
    }
    for (i, (p, cls)) in pts.iter().enumerate() {
        let op = if i % 2 == 0 {
            json!({"op": "encode", "g": g, "pj": proj_to_j(p), "cls": cls})
        } else {
            json!({"op": "encode", "g": g, "p": aff_to_j(&p.into_affine()), "cls": cls})
        };
        ops.push(op);
        // both roots of the same abscissa
        let mut n = *p;
        n.negate();
        ops.push(json!({"op": "encode", "g": g, "p": aff_to_j(&n.into_affine()), "cls": format!("neg/{}", cls)}));
        if ops.len() >= per {
            sessions.push(std::mem::replace(&mut ops, vec![]));
        }
    }
    sessions.push(ops);
    // the only accepted preimage: decoding of valid encodings, of the same bytes with each flag
    // toggled, and with single bits flipped (an accepted string must re-encode to itself)
    let mut ops = vec![];
    let lim = if thorough { 60 } else { 10 };
    for (i, (p, cls)) in pts.iter().enumerate().filter(|(i, (_, c))| *i < lim || c.starts_with("coord-")) {
        let a = p.into_affine();
        for form in ["c", "u"].iter() {
            let b = if *form == "c" { a.into_compressed().as_ref().to_vec() } else { a.into_uncompressed().as_ref().to_vec() };
            ops.push(json!({"op": "decode", "g": g, "form": form, "bytes": bytes_to_j(&b), "cls": format!("canonical/{}", cls)}));
            for bit in [7usize, 6, 5].iter() {
                let mut c = b.clone();
                c[0] ^= 1 << bit;
                ops.push(json!({"op": "decode", "g": g, "form": form, "bytes": bytes_to_j(&c), "cls": format!("flag-toggled/{}", cls)}));
            }
            for field in 1..(b.len() / 48) {
                let mut c = b.clone();
                c[48 * field] |= 1 << (5 + (i + field) % 3);
                ops.push(json!({"op": "decode", "g": g, "form": form, "bytes": bytes_to_j(&c), "cls": format!("inner-field-top-bit/{}", cls)}));
            }
            if i % 2 == 0 {
                let mut c = b.clone();
                let k = r.below((b.len() * 8) as u64) as usize;
                c[k / 8] ^= 1 << (k % 8);
                ops.push(json!({"op": "decode", "g": g, "form": form, "bytes": bytes_to_j(&c), "cls": format!("bit-flip/{}", cls)}));
            }
        }
        if ops.len() >= per * 2 {
            sessions.push(std::mem::replace(&mut ops, vec![]));
        }
    }
    sessions.push(ops);
    // strings shorter than the encoding (only the stream API can be handed them): never accepted,
    // also when the missing tail would have been zero bytes (identity; points whose encoding ends in 00)
    let mut ops = vec![];
    for form in ["c", "u"].iter() {
        let enc = |a: &G::Affine| if *form == "c" { a.into_compressed().as_ref().to_vec() } else { a.into_uncompressed().as_ref().to_vec() };
        let idb = enc(&G::zero().into_affine());
        let n = idb.len();
        for cut in [0usize, 1, 47, 48, 49, 95, 96, 97, 143, 144, 191].iter().filter(|c| **c < n) {
            ops.push(json!({"op": "decode", "g": g, "form": form, "bytes": bytes_to_j(&idb[..*cut]), "cls": "short/identity"}));
        }
        let mut acc = G::one();
        let mut found = 0;
        for _ in 0..(if thorough { 4000 } else { 1500 }) {
            acc.add_assign(&G::one());
            let b = enc(&acc.into_affine());
            if b[n - 1] == 0 {
                let zeros = b.iter().rev().take_while(|x| **x == 0).count();
                ops.push(json!({"op": "decode", "g": g, "form": form, "bytes": bytes_to_j(&b[..n - zeros]), "cls": "short/zero-tail"}));
                ops.push(json!({"op": "decode", "g": g, "form": form, "bytes": bytes_to_j(&b), "cls": "canonical/zero-tail"}));
                found += 1;
                if found >= 2 {
                    break;
                }
            }
        }
        let b = enc(&pts[3].0.into_affine());
        for cut in [n - 1, n - 48, 48, 1].iter() {
            ops.push(json!({"op": "decode", "g": g, "form": form, "bytes": bytes_to_j(&b[..*cut]), "cls": "short/random-point"}));
        }
        if ops.len() >= per {
            sessions.push(std::mem::replace(&mut ops, vec![]));
        }
    }
    sessions.push(ops);
}

pub fn wl_c05(seed: u64, tier: &str) -> Vec<Vec<Value>> {
    let mut r = Rng(seed.wrapping_mul(505) ^ 5);
    let mut sessions = vec![];
    c05_group::<G1>(&mut r, seed, tier == "thorough", &mut sessions);
    c05_group::<G2>(&mut r, seed + 1, tier == "thorough", &mut sessions);
    sessions.retain(|s| !s.is_empty());
    sessions
}

fn c07_group<G: Grp>(r: &mut Rng, seed: u64, thorough: bool, sessions: &mut Vec<Vec<Value>>)
where
    G: CurveProjective<Scalar = Fr>,
    G::Base: J,
    G::Affine: CurveAffine<Projective = G, Base = G::Base, Scalar = Fr>,
{
    let g = G::NAME;
    let is1 = g == "G1";
    let fq = fq_info();
    let per = if is1 { 10 } else { 4 };
    let mut rng = xs(seed ^ 0x77);
    let mut ops: Vec<Value> = vec![];
    let mut push = |ops: &mut Vec<Value>, v: Value| {
        ops.push(v);
        if ops.len() >= per {
            sessions.push(std::mem::replace(ops, vec![]));
        }
    };
    let scale = if thorough { 10 } else { 1 };
    // the predicate on arbitrary coordinate pairs
    let pool = affine_pool::<G>(r, seed);
    for (p, cls) in pool.iter() {
        push(&mut ops, json!({"op": "insub", "g": g, "p": aff_to_j(p), "cls": cls}));
    }
    for _ in 0..(6 * scale) {
        let p = full_order_point::<G>(r);
        push(&mut ops, json!({"op": "insub", "g": g, "p": aff_to_j(&p), "cls": "full-order"}));
    }
    for _ in 0..(6 * scale) {
        // off-curve pair: arbitrary reduced coordinates
        let (x, y) = if is1 { (nat(&rand_elem(r, &fq)), nat(&rand_elem(r, &fq))) } else { (rand_f2(r, &fq), rand_f2(r, &fq)) };
        push(&mut ops, json!({"op": "insub", "g": g, "p": [x, y, false], "cls": "off-curve"}));
    }
    if is1 {
        let z = vec![0u64; 6];
        let two = w_add_small(&z, 2);
        let m2 = w_sub_small(&fq.p, 2);
        push(&mut ops, json!({"op": "insub", "g": g, "p": [nat(&z), nat(&two), false], "cls": "order-3"}));
        push(&mut ops, json!({"op": "insub", "g": g, "p": [nat(&z), nat(&m2), false], "cls": "order-3"}));
    }
    // producers
    push(&mut ops, json!({"op": "prod", "g": g, "fn": "one", "cls": "producer-one"}));
    for i in 0..(3 * scale) {
        push(&mut ops, json!({"op": "prod", "g": g, "fn": "random", "seed": nat(&vec![seed * 31 + i]), "n": if is1 { 6 } else { 3 }, "cls": "producer-random"}));
    }
    for i in 0..(3 * scale) {
        let p = G::random(&mut rng);
        let q = if i % 3 == 0 { p } else { G::random(&mut rng) };
        push(&mut ops, json!({"op": "prod", "g": g, "fn": "arith", "p": proj_to_j(&p), "q": proj_to_j(&q), "cls": "producer-arith"}));
        for _ in 0..3 {
            push(&mut ops, json!({"op": "prod", "g": g, "fn": "batch", "p": proj_to_j(&p), "q": proj_to_j(&q),
                                  "pattern": r.below(1 << 15), "cls": "producer-batch-normalization"}));
        }
        let bits = if i % 2 == 0 { 255 } else { 256 };
        push(&mut ops, json!({"op": "prod", "g": g, "fn": "mul", "p": proj_to_j(&p), "k": nat(&rand_scalar_bits(r, bits)), "cls": "producer-mul"}));
        let pts: Vec<Value> = (0..3).map(|_| aff_to_j(&G::random(&mut rng).into_affine())).collect();
        let ks: Vec<Value> = (0..3).map(|_| nat(&rand_scalar_bits(r, 255))).collect();
        push(&mut ops, json!({"op": "prod", "g": g, "fn": "msm", "points": pts, "scalars": ks, "cls": "producer-msm"}));
        // identities among the bases (first, in the middle, several), all-ones and random scalars, the
        // default entry with enough bases for a larger window and explicit windows of every kind
        {
            let zero = G::zero().into_affine();
            let n = if i % 2 == 0 { 21 } else { 5 };
            let mut pts: Vec<Value> = (0..n).map(|_| aff_to_j(&G::random(&mut rng).into_affine())).collect();
            pts[0] = aff_to_j(&zero);
            pts[n / 2] = aff_to_j(&zero);
            if i % 3 == 0 {
                pts[1] = aff_to_j(&zero);
            }
            let mut ks: Vec<Value> = (0..n).map(|_| nat(&rand_scalar_bits(r, 255))).collect();
            ks[0] = nat(&w_ones(255, 4));
            push(&mut ops, json!({"op": "prod", "g": g, "fn": "msm", "points": pts, "scalars": ks,
                                  "windows": [1, 3, 5, 6, 7, 9, 13], "cls": "producer-msm-with-identities"}));
        }
        // precomputation tables of a subgroup point and of the identity (reached as P - P as well)
        let base = match i % 3 { 0 => G::zero(), 1 => { let mut t = p; t.sub_assign(&p); t }, _ => p };
        let idx: Vec<u64> = vec![0, 1, 2, 128, 255, r.below(256), r.below(256)];
        push(&mut ops, json!({"op": "prod", "g": g, "fn": "precomp", "p": proj_to_j(&base), "k": nat(&rand_scalar_bits(r, 255)),
                              "idx": idx, "cls": if i % 3 == 2 { "producer-precomp" } else { "producer-precomp-identity" }}));
        let ml = r.below(80) as usize;
        let msg = r.bytes(ml);
        let dl = 1 + r.below(40) as usize;
        let dst = r.bytes(dl);
        push(&mut ops, json!({"op": "prod", "g": g, "fn": "hash", "msg": bytes_to_j(&msg), "dst": bytes_to_j(&dst), "cls": "producer-hash"}));
        let (u0, u1) = if is1 { (nat(&rand_elem(r, &fq)), nat(&rand_elem(r, &fq))) } else { (rand_f2(r, &fq), rand_f2(r, &fq)) };
        push(&mut ops, json!({"op": "prod", "g": g, "fn": "map", "u0": u0, "u1": u1, "cls": "producer-map"}));
        let f = full_order_point::<G>(r).into_projective();
        push(&mut ops, json!({"op": "prod", "g": g, "fn": "clear_h", "p": proj_to_j(&f), "cls": "producer-clear_h"}));
        // decoding: valid subgroup encodings and full-order encodings (the latter must yield nothing)
        let form = if i % 2 == 0 { "c" } else { "u" };
        let a = p.into_affine();
        let b = if form == "c" { a.into_compressed().as_ref().to_vec() } else { a.into_uncompressed().as_ref().to_vec() };
        push(&mut ops, json!({"op": "prod", "g": g, "fn": "decode", "form": form, "bytes": bytes_to_j(&b), "cls": "producer-decode"}));
        let fa = f.into_affine();
        let b = if form == "c" { fa.into_compressed().as_ref().to_vec() } else { fa.into_uncompressed().as_ref().to_vec() };
        push(&mut ops, json!({"op": "prod", "g": g, "fn": "decode", "form": form, "bytes": bytes_to_j(&b), "cls": "producer-decode-full-order"}));
    }
    sessions.push(std::mem::replace(&mut ops, vec![]));
}

pub fn wl_c07(seed: u64, tier: &str) -> Vec<Vec<Value>> {
    let mut r = Rng(seed.wrapping_mul(707) ^ 7);
    let mut sessions = vec![];
    c07_group::<G1>(&mut r, seed, tier == "thorough", &mut sessions);
    c07_group::<G2>(&mut r, seed + 1, tier == "thorough", &mut sessions);
    sessions.retain(|s| !s.is_empty());
    sessions
}

// ---------------------------------------------------------------------------
// C19 streams

fn st(f: &str) -> Value {
    json!({"op": "st", "fn": f})
}
fn st_write(ty: &str, v: Value, c: bool, cls: &str) -> Value {
    json!({"op": "st", "fn": "write", "ty": ty, "v": v, "c": c, "cls": cls})
}
fn st_read(ty: &str, c: bool, cls: &str) -> Value {
    json!({"op": "st", "fn": "read", "ty": ty, "c": c, "cls": cls})
}

struct Vals {
    g1: Vec<G1>,
    g2: Vec<G2>,
}

fn rand_value(r: &mut Rng, v: &Vals, ty: &str) -> Value {
    let fq = fq_info();
    let fr = fr_info();
    match ty {
        "Fr" => nat(&rand_elem(r, &fr)),
        "Fq12" => rand_f12(r, &fq),
        "G1" => proj_to_j(r.pick(&v.g1)),
        "G1Affine" => aff_to_j(&r.pick(&v.g1).into_affine()),
        "G2" => proj_to_j(r.pick(&v.g2)),
        "G2Affine" => aff_to_j(&r.pick(&v.g2).into_affine()),
        _ => unreachable!(),
    }
}
fn size_of(ty: &str, c: bool) -> usize {
    match ty {
        "Fr" => 32,
        "Fq12" => 576,
        "G1" | "G1Affine" => if c { 48 } else { 96 },
        _ => if c { 96 } else { 192 },
    }
}

pub fn wl_c19(seed: u64, tier: &str) -> Vec<Vec<Value>> {
    let thorough = tier == "thorough";
    let mut r = Rng(seed.wrapping_mul(1919) ^ 19);
    let mut rng = xs(seed ^ 0x19);
    let mut g1: Vec<G1> = (0..4).map(|_| G1::random(&mut rng)).collect();
    g1.push(G1::zero());
    g1.push(G1::one());
    let mut t = G1::one();
    t.double();
    g1.push(t); // non-normalized
    let mut g2: Vec<G2> = (0..3).map(|_| G2::random(&mut rng)).collect();
    g2.push(G2::zero());
    let mut t = G2::one();
    t.double();
    g2.push(t);
    // coordinates in [0x1a00.., q) and below 2^376 (leading byte of a 48-byte field)
    for (p, _) in extreme_coord_points::<G1>(seed, 400_000, 1) {
        g1.push(p);
    }
    for (p, _) in extreme_coord_points::<G2>(seed, 300_000, 1) {
        g2.push(p);
    }
    let vals = Vals { g1, g2 };
    let types = ["Fr", "Fq12", "G1", "G1Affine", "G2", "G2Affine"];
    let fq = fq_info();
    let fr = fr_info();
    let mut sessions = vec![];
    // round trips: several values of mixed types on one stream, read back in order
    for _ in 0..(if thorough { 60 } else { 10 }) {
        let mut ops = vec![st("reset")];
        let n = 2 + r.below(4) as usize;
        let items: Vec<(&str, bool)> = (0..n).map(|_| (*r.pick(&types), r.below(2) == 0)).collect();
        for (ty, c) in &items {
            ops.push(st_write(ty, rand_value(&mut r, &vals, ty), *c, "roundtrip"));
        }
        let tl = r.below(5) as usize;
        let trail = r.bytes(tl);
        ops.push(json!({"op": "st", "fn": "flip", "append": bytes_to_j(&trail), "cls": "roundtrip"}));
        for (ty, c) in &items {
            ops.push(st_read(ty, *c, "roundtrip"));
        }
        // one more read: only trailing bytes remain
        ops.push(st_read(*r.pick(&types), true, "read-past-end"));
        sessions.push(ops);
    }
    // every point of the pools (coordinates with extreme leading bytes among them) through every
    // point type and both flags
    {
        let mut ops = vec![st("reset")];
        let mut items: Vec<(&str, bool)> = vec![];
        for ty in ["G1", "G1Affine", "G2", "G2Affine"].iter() {
            let n = if ty.starts_with("G1") { vals.g1.len() } else { vals.g2.len() };
            for i in 0..n {
                for c in [true, false].iter() {
                    let v = match *ty {
                        "G1" => proj_to_j(&vals.g1[i]),
                        "G1Affine" => aff_to_j(&vals.g1[i].into_affine()),
                        "G2" => proj_to_j(&vals.g2[i]),
                        _ => aff_to_j(&vals.g2[i].into_affine()),
                    };
                    ops.push(st_write(ty, v, *c, "pool-roundtrip"));
                    items.push((ty, *c));
                }
            }
        }
        ops.push(json!({"op": "st", "fn": "flip", "cls": "pool-roundtrip"}));
        for (ty, c) in &items {
            ops.push(st_read(ty, *c, "pool-roundtrip"));
        }
        sessions.push(ops);
    }
    // many values on one stream (cursor arithmetic over a long history)
    {
        let mut ops = vec![st("reset")];
        let n = if thorough { 200 } else { 70 };
        let items: Vec<(&str, bool)> = (0..n).map(|i| (types[(i * 5 + i / 7) % types.len()], i % 3 != 0)).collect();
        for (ty, c) in &items {
            ops.push(st_write(ty, rand_value(&mut r, &vals, ty), *c, "long-stream"));
        }
        ops.push(json!({"op": "st", "fn": "flip", "cls": "long-stream"}));
        for (i, (ty, c)) in items.iter().enumerate() {
            let chunk = if i % 4 == 0 { 13 } else { 0 };
            ops.push(json!({"op": "st", "fn": "read", "ty": ty, "c": c, "chunk": chunk, "cls": "long-stream"}));
        }
        sessions.push(ops);
    }
    // truncation at every prefix length of a single value (quick: sampled lengths)
    for ty in types.iter() {
        for c in [true, false].iter() {
            if (*ty == "Fr" || *ty == "Fq12") && !*c {
                continue;
            }
            let sz = size_of(ty, *c);
            let cuts: Vec<usize> = if thorough { (0..sz).collect() } else {
                let mut v = vec![0, 1, sz / 2, sz - 1];
                if sz > 48 { v.push(47); v.push(48); v.push(49); }
                if sz > 96 { v.push(95); v.push(96); v.push(97); }
                v
            };
            let mut ops = vec![];
            for (i, cut) in cuts.iter().enumerate() {
                ops.push(st("reset"));
                // every cut with a random value; points additionally with the identity
                if *ty != "Fr" && *ty != "Fq12" {
                    let idv = match *ty {
                        "G1" => proj_to_j(&G1::zero()),
                        "G1Affine" => aff_to_j(&G1::zero().into_affine()),
                        "G2" => proj_to_j(&G2::zero()),
                        _ => aff_to_j(&G2::zero().into_affine()),
                    };
                    ops.push(st_write(ty, idv, *c, "truncation-identity"));
                    ops.push(json!({"op": "st", "fn": "flip", "trunc": cut, "cls": "truncation-identity"}));
                    ops.push(st_read(ty, *c, "truncation-identity"));
                    ops.push(st("reset"));
                }
                ops.push(st_write(ty, rand_value(&mut r, &vals, ty), *c, "truncation"));
                ops.push(json!({"op": "st", "fn": "flip", "trunc": cut, "cls": "truncation"}));
                ops.push(st_read(ty, *c, "truncation"));
                if (i + 1) % 24 == 0 {
                    sessions.push(std::mem::replace(&mut ops, vec![]));
                }
            }
            sessions.push(ops);
        }
    }
    // readers that return short reads: round trips must be unaffected
    for chunk in [1u64, 7, 10, 47, 48, 100].iter() {
        let mut ops = vec![st("reset")];
        let items: Vec<(&str, bool)> = types.iter().map(|t| (*t, chunk % 2 == 0)).collect();
        for (ty, c) in &items {
            ops.push(st_write(ty, rand_value(&mut r, &vals, ty), *c, "short-reads"));
        }
        ops.push(json!({"op": "st", "fn": "flip", "cls": "short-reads"}));
        for (ty, c) in &items {
            ops.push(json!({"op": "st", "fn": "read", "ty": ty, "c": c, "chunk": chunk, "cls": "short-reads"}));
        }
        sessions.push(ops);
    }
    // flag mismatch in both directions, projective vs affine writers, wrong type of reader
    {
        let mut ops = vec![];
        for ty in ["G1", "G1Affine", "G2", "G2Affine"].iter() {
            for c in [true, false].iter() {
                ops.push(st("reset"));
                ops.push(st_write(ty, rand_value(&mut r, &vals, ty), *c, "flag-mismatch"));
                ops.push(st_write(ty, rand_value(&mut r, &vals, ty), *c, "flag-mismatch"));
                ops.push(json!({"op": "st", "fn": "flip", "cls": "flag-mismatch"}));
                ops.push(st_read(ty, !*c, "flag-mismatch"));
            }
        }
        sessions.push(ops);
    }
    // non-reduced scalars and Fq12 coefficients (each of the 12 positions)
    {
        let mut ops = vec![];
        for v in [fr.p.clone(), w_add_small(&fr.p, 1), w_ones(256, 4), w_sub_small(&fr.p, 1)].iter() {
            let mut b = vec![];
            for x in v.iter().rev() { b.extend_from_slice(&x.to_be_bytes()); }
            b.extend_from_slice(&r.bytes(3));
            ops.push(json!({"op": "st", "fn": "set", "bytes": bytes_to_j(&b), "cls": "non-reduced"}));
            ops.push(st_read("Fr", true, "non-reduced"));
        }
        for pos in 0..12 {
            for v in [fq.p.clone(), w_ones(384, 6), w_sub_small(&fq.p, 1)].iter() {
                let mut b = vec![];
                for i in 0..12 {
                    let w = if i == pos { v.clone() } else { rand_elem(&mut r, &fq) };
                    b.extend_from_slice(&be(&w));
                }
                ops.push(json!({"op": "st", "fn": "set", "bytes": bytes_to_j(&b), "cls": "non-reduced"}));
                ops.push(st_read("Fq12", true, "non-reduced"));
            }
        }
        sessions.push(ops);
    }
    // arbitrary and rejected encodings through the stream API
    for ty in ["G1", "G1Affine", "G2", "G2Affine"].iter() {
        let mut ops = vec![];
        let is1 = ty.starts_with("G1");
        for i in 0..(if thorough { 80 } else { if is1 { 16 } else { 6 } }) {
            let c = i % 2 == 0;
            let sz = size_of(ty, c);
            let mut b = if i % 4 < 2 { r.bytes(sz + 2) } else {
                // a full-order curve point: valid encoding, wrong subgroup
                let e = if is1 {
                    let p = full_order_point::<G1>(&mut r);
                    if c { p.into_compressed().as_ref().to_vec() } else { p.into_uncompressed().as_ref().to_vec() }
                } else {
                    let p = full_order_point::<G2>(&mut r);
                    if c { p.into_compressed().as_ref().to_vec() } else { p.into_uncompressed().as_ref().to_vec() }
                };
                e
            };
            if i % 4 == 1 {
                b[0] = (b[0] & 0x1f) | if c { 0x80 } else { 0 };
            }
            ops.push(json!({"op": "st", "fn": "set", "bytes": bytes_to_j(&b), "cls": "rejected-encoding"}));
            ops.push(st_read(ty, c, "rejected-encoding"));
            if ops.len() >= 12 {
                sessions.push(std::mem::replace(&mut ops, vec![]));
            }
        }
        sessions.push(ops);
    }
    sessions.retain(|s| !s.is_empty());
    sessions
}
