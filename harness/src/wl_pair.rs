//! Workloads for the pairing (C03), products of pairings (C11), final exponentiation (C12).
use crate::j::*;
use crate::wl::*;
use pairing::bls12_381::{G1Affine, G2Affine, G1, G2};
use pairing::{CurveAffine, CurveProjective};
use serde_json::{json, Value};

fn g1_pool(seed: u64) -> Vec<(G1Affine, &'static str)> {
    let mut rng = xs(seed ^ 0x31);
    let mut v = vec![(G1Affine::one(), "gen"), (G1Affine::zero(), "identity")];
    let mut t = G1::one();
    t.double();
    v.push((t.into_affine(), "2g"));
    for _ in 0..4 {
        v.push((G1::random(&mut rng).into_affine(), "rand"));
    }
    // same ordinate as the generator / as a pool point, other abscissa
    v.push((endo_img::<G1>(&G1Affine::one(), false), "endo(gen)"));
    v.push((endo_img::<G1>(&v[4].0.clone(), true), "endo2(rand)"));
    v
}
fn g2_pool(seed: u64) -> Vec<(G2Affine, &'static str)> {
    let mut rng = xs(seed ^ 0x32);
    let mut v = vec![(G2Affine::one(), "gen"), (G2Affine::zero(), "identity")];
    let mut t = G2::one();
    t.double();
    t.add_assign(&G2::one());
    v.push((t.into_affine(), "3g"));
    for _ in 0..4 {
        v.push((G2::random(&mut rng).into_affine(), "rand"));
    }
    v.push((endo_img::<G2>(&G2Affine::one(), false), "endo(gen)"));
    v.push((endo_img::<G2>(&G2Affine::one(), true), "endo2(gen)"));
    v.push((endo_img::<G2>(&v[4].0.clone(), true), "endo2(rand)"));
    v
}

pub fn wl_c03(seed: u64, tier: &str) -> Vec<Vec<Value>> {
    let thorough = tier == "thorough";
    let mut r = Rng(seed.wrapping_mul(303) ^ 3);
    let p1 = g1_pool(seed);
    let p2 = g2_pool(seed);
    let fr = fr_info();
    let mut sessions = vec![];
    // direct evaluation against the textbook pairing (about 45 s of TLC each): one per session
    let direct: Vec<(usize, usize)> = if thorough {
        (0..64).map(|i| (i % p1.len(), (i / 2 + i) % p2.len())).collect()
    } else {
        vec![(0, 0), (2, 2), (3, 3), (4, 0), (0, 4), (5, 5), (6, 2), (2, 6), (1, 3), (3, 1), (1, 1), (4, 4),
             (0, 7), (7, 0), (3, 8), (8, 9)]
    };
    for (i, j) in direct {
        sessions.push(vec![json!({"op": "pairing", "p": aff_to_j(&p1[i].0), "q": aff_to_j(&p2[j].0),
                                  "cls": format!("direct/{}/{}", p1[i].1, p2[j].1)})]);
    }
    // bilinearity as a relation
    let z = vec![0u64; 4];
    let mut scal: Vec<(W, &str)> = vec![
        (z.clone(), "0"), (w_add_small(&z, 1), "1"), (w_add_small(&z, 2), "2"), (w_add_small(&z, 65537), "small"),
        (w_sub_small(&fr.p, 1), "r-1"), (fr.p.clone(), "r"), (w_add_small(&fr.p, 1), "r+1"),
        (w_ones(256, 4), ">=r"), (LAMBDA.to_vec(), "lambda"), (LAMBDA2.to_vec(), "lambda^2"),
    ];
    for _ in 0..4 {
        scal.push((rand_scalar_bits(&mut r, 255), "rand255"));
        scal.push((rand_scalar_bits(&mut r, 64), "rand64"));
    }
    let n = if thorough { 400 } else { 36 };
    for i in 0..n {
        let (a, ca) = scal[(i * 5 + 1) % scal.len()].clone();
        let (b, cb) = scal[(i * 3 + i / scal.len()) % scal.len()].clone();
        let (p, cp) = &p1[(i * 2 + 3) % p1.len()];
        let (q, cq) = &p2[(i + 3) % p2.len()];
        sessions.push(vec![json!({"op": "bilin", "p": aff_to_j(p), "q": aff_to_j(q), "a": nat(&a), "b": nat(&b),
                                  "check_order": i % 6 == 0,
                                  "cls": format!("bilin/a={}/b={}/{}/{}", ca, cb, cp, cq)})]);
    }
    // several pairs in one call, identities before / between / after real pairs (the pairing of a list
    // is the product of the pairings; an identity pair contributes one and nothing else)
    {
        let mut ops = vec![];
        for (a, b) in [(vec![0i64, 1], vec![1i64, 1]), (vec![1, 2], vec![0, 1]), (vec![2, 0, 1], vec![1, 1, 3]),
                       (vec![0, 0, 2], vec![0, 1, 1]), (vec![1, 0], vec![1, 1]), (vec![1, -1, 0, 2], vec![2, 2, 5, 1])].iter() {
            ops.push(json!({"op": "pairl", "fn": "miller", "as": a, "bs": b, "cls": "list-with-identity"}));
            ops.push(json!({"op": "pairl", "fn": "pmulti", "as": a, "bs": b, "cls": "list-with-identity"}));
            if a.len() == 2 {
                ops.push(json!({"op": "pairl", "fn": "pprod", "as": a, "bs": b, "cls": "list-with-identity"}));
            }
        }
        sessions.push(ops);
        // long lists through the slice helper and the joint loop (any internal blocking must see every pair)
        for len in [64usize, 65, 130].iter() {
            let a: Vec<i64> = (0..*len).map(|i| 1 + (i % 5) as i64).collect();
            let b: Vec<i64> = (0..*len).map(|i| if i % 3 == 0 { -2 } else { 1 + (i % 2) as i64 }).collect();
            sessions.push(vec![json!({"op": "pairl", "fn": "pmulti", "as": a, "bs": b, "cls": format!("long-list-{}", len)}),
                               json!({"op": "pairl", "fn": "miller", "as": a, "bs": b, "plain": true, "cls": format!("long-list-{}", len)})]);
        }
    }
    // adjacency on ONE thread: the same pair (P, Q) under every combination of multipliers whose images
    // share an abscissa (-1), an ordinate (lambda, lambda^2) or both with P resp. Q - whatever a routine
    // remembers about the previous call (by x, by y, by prefix) is wrong for the next one
    {
        let rm1 = w_sub_small(&fr.p, 1);
        let mut lm = LAMBDA.to_vec();
        // r - lambda
        let mut borrow = 0u64;
        let mut rl = vec![0u64; 4];
        for i in 0..4 {
            let (d, b1) = fr.p[i].overflowing_sub(lm[i]);
            let (d2, b2) = d.overflowing_sub(borrow);
            rl[i] = d2;
            borrow = (b1 || b2) as u64;
        }
        lm.truncate(4);
        let muls: Vec<(W, &str)> = vec![(w_add_small(&z, 1), "1"), (rm1.clone(), "-1"), (LAMBDA.to_vec(), "lambda"),
                                        (LAMBDA2.to_vec(), "lambda^2"), (rl, "-lambda"), (w_add_small(&z, 1), "1")];
        for (pi, qi) in [(3usize, 3usize), (0, 0)].iter() {
            let mut ops = vec![];
            for (k, (a, ca)) in muls.iter().enumerate() {
                for (l, (b, cb)) in muls.iter().enumerate() {
                    if !thorough && *pi == 0 && (k + 2 * l) % 3 != 0 {
                        continue;
                    }
                    ops.push(json!({"op": "bilin", "p": aff_to_j(&p1[*pi].0), "q": aff_to_j(&p2[*qi].0), "a": nat(a), "b": nat(b),
                                    "check_order": false, "cls": format!("adjacent/a={}/b={}", ca, cb)}));
                }
            }
            sessions.push(ops);
        }
    }
    sessions
}

pub fn wl_c11(seed: u64, tier: &str) -> Vec<Vec<Value>> {
    let thorough = tier == "thorough";
    let mut r = Rng(seed.wrapping_mul(1111) ^ 11);
    let mut sessions = vec![];
    let mut ops = vec![];
    let av = [0i64, 1, -1, 2];
    let bv = [0i64, 1, -1, 3];
    // all lists of length 0..3 over the pool (identities at every position, cancellations), sampled at 4
    let mut lists: Vec<(Vec<i64>, Vec<i64>)> = vec![(vec![], vec![])];
    for len in 1..=3usize {
        let total = 16usize.pow(len as u32);
        for code in 0..total {
            if !thorough && len == 3 && code % 7 != 0 {
                continue;
            }
            let mut c = code;
            let (mut a, mut b) = (vec![], vec![]);
            for _ in 0..len {
                a.push(av[c % 4]);
                b.push(bv[(c / 4) % 4]);
                c /= 16;
            }
            lists.push((a, b));
        }
    }
    for _ in 0..(if thorough { 200 } else { 20 }) {
        let len = 4 + r.below(if thorough { 37 } else { 6 }) as usize;
        let a: Vec<i64> = (0..len).map(|_| r.below(7) as i64 - 3).collect();
        let b: Vec<i64> = (0..len).map(|_| r.below(7) as i64 - 3).collect();
        lists.push((a, b));
    }
    // long lists (a helper that batches internally must still see every pair exactly once)
    for len in [63usize, 64, 65, 130].iter() {
        if !thorough && *len == 130 {
            // one long cancelling list instead: sum over the whole list only
            let mut a: Vec<i64> = (0..70).map(|i| 1 + (i % 3) as i64).collect();
            let b: Vec<i64> = (0..70).map(|i| if i % 2 == 0 { 1 } else { -1 }).collect();
            let s: i64 = a.iter().zip(b.iter()).map(|(x, y)| x * y).sum();
            a.push(-s);
            let mut b2 = b.clone();
            b2.push(1);
            lists.push((a, b2));
            continue;
        }
        let a: Vec<i64> = (0..*len).map(|_| r.below(7) as i64 - 3).collect();
        let b: Vec<i64> = (0..*len).map(|_| r.below(7) as i64 - 3).collect();
        lists.push((a, b));
    }
    // repeated values on either side in every arrangement of up to three distinct values over five
    // positions that has two different repeated values (a helper that shares work between equal
    // inputs must map every position to the right shared item)
    for pat in [[0usize, 0, 1, 1, 2], [0, 0, 1, 2, 1], [0, 1, 0, 2, 2], [0, 1, 1, 0, 2], [0, 1, 0, 1, 2], [0, 0, 1, 1, 1],
                [0, 1, 2, 1, 0], [0, 0, 0, 1, 1]].iter() {
        let vals = [2i64, -3, 1];
        let other = [1i64, 2, 3, -1, -2];
        let rep: Vec<i64> = pat.iter().map(|k| vals[*k]).collect();
        lists.push((other.to_vec(), rep.clone()));          // repeated G2 values
        lists.push((rep.clone(), other.to_vec()));          // repeated G1 values
        lists.push((rep.clone(), rep.iter().rev().cloned().collect())); // both sides
        lists.push((other[..4].to_vec(), rep[..4].to_vec()));
    }
    // runs of the SAME pair (both components), of every length 2..5, alone and inside a list
    for run in 2..=5usize {
        lists.push((vec![3; run], vec![5; run]));
        let mut a = vec![2i64, -1];
        let mut b = vec![1i64, 3];
        a.extend(vec![3; run]);
        b.extend(vec![-2; run]);
        a.push(1);
        b.push(1);
        lists.push((a, b));
    }
    // explicit cancellations: sum a_i b_i = 0
    lists.push((vec![1, -1], vec![2, 2]));
    lists.push((vec![2, 1, -3], vec![3, 3, 3]));
    lists.push((vec![1, 1, -2, 0], vec![1, 1, 1, 5]));
    for (i, (a, b)) in lists.iter().enumerate() {
        ops.push(json!({"op": "pairl", "fn": "miller", "as": a, "bs": b, "cls": format!("list-len{}", a.len())}));
        if i % 3 == 0 || a.len() > 3 {
            ops.push(json!({"op": "pairl", "fn": "pmulti", "as": a, "bs": b, "cls": format!("multi-len{}", a.len())}));
        }
        if a.len() == 2 {
            ops.push(json!({"op": "pairl", "fn": "pprod", "as": a, "bs": b, "cls": "two-pair-helper"}));
        }
        if ops.len() >= 30 {
            sessions.push(std::mem::replace(&mut ops, vec![]));
        }
    }
    // prepared elements reused across several evaluations
    for _ in 0..(if thorough { 40 } else { 6 }) {
        let a: Vec<i64> = (0..4).map(|_| r.below(5) as i64 - 2).collect();
        let b: Vec<i64> = (0..4).map(|_| r.below(5) as i64 - 2).collect();
        let lists: Vec<Vec<Vec<u64>>> = (0..5).map(|_| {
            let n = r.below(5);
            (0..n).map(|_| vec![r.below(4), r.below(4)]).collect()
        }).collect();
        ops.push(json!({"op": "pairl", "fn": "reuse", "as": a, "bs": b, "lists": lists, "cls": "prepared-reuse"}));
    }
    sessions.push(std::mem::replace(&mut ops, vec![]));
    // arbitrary points: joint value = product of the individual pairings
    let p1 = g1_pool(seed);
    let p2 = g2_pool(seed);
    for i in 0..(if thorough { 120 } else { 24 }) {
        let len = if i < 2 { i } else { 1 + r.below(if thorough { 12 } else { 5 }) as usize };
        let pairs: Vec<Value> = (0..len).map(|_| json!([aff_to_j(&r.pick(&p1).0), aff_to_j(&r.pick(&p2).0)])).collect();
        ops.push(json!({"op": "pairr", "pairs": pairs, "cls": format!("random-len{}", len)}));
        if ops.len() >= 6 {
            sessions.push(std::mem::replace(&mut ops, vec![]));
        }
    }
    sessions.push(ops);
    sessions.retain(|s| !s.is_empty());
    sessions
}

pub fn wl_c12(seed: u64, tier: &str) -> Vec<Vec<Value>> {
    let thorough = tier == "thorough";
    let mut r = Rng(seed.wrapping_mul(1212) ^ 12);
    let fq = fq_info();
    let z = vec![0u64; 6];
    let one = w_add_small(&z, 1);
    let m1 = w_sub_small(&fq.p, 1);
    let z2 = f2(&z, &z);
    let o2 = f2(&one, &z);
    let z6 = json!([z2, z2, z2]);
    let mut sessions = vec![];
    // cheap classes: zero, elements of proper subfields (must map to one)
    let mut ops = vec![];
    let mut triv: Vec<(Value, &str)> = vec![
        (json!([z6, z6]), "zero"),
        (json!([[o2, z2, z2], z6]), "one"),
        (json!([[f2(&m1, &z), z2, z2], z6]), "minus-one"),
        (json!([[f2(&rand_elem(&mut r, &fq), &z), z2, z2], z6]), "in-Fq"),
        (json!([[rand_f2(&mut r, &fq), z2, z2], z6]), "in-Fq2"),
        (json!([[z2, o2, z2], z6]), "v"),
    ];
    for _ in 0..4 {
        triv.push((json!([rand_f6(&mut r, &fq), z6]), "in-Fq6"));
    }
    for (f, cls) in triv {
        ops.push(json!({"op": "finalexp", "f": f, "cls": cls}));
    }
    sessions.push(ops);
    // every zero / non-zero pattern of the six Fq2 coefficients: failure is reported exactly for zero;
    // the value is in the target group and multiplicative (cheap), and for a sample the exact power
    let mut pats: Vec<(u32, Value)> = vec![];
    for m in 1u32..64 {
        let cs: Vec<Value> = (0..6).map(|i| if m >> i & 1 == 1 { rand_f2(&mut r, &fq) } else { z2.clone() }).collect();
        pats.push((m, json!([[cs[0], cs[1], cs[2]], [cs[3], cs[4], cs[5]]])));
    }
    let mut ops = vec![];
    for (m, f) in pats.iter() {
        ops.push(json!({"op": "finalexp", "f": f, "cheap": true, "cls": format!("shape-{:02x}", m)}));
        ops.push(json!({"op": "ferel", "f": f, "g": rand_f12(&mut r, &fq), "cls": format!("shape-{:02x}", m)}));
        if ops.len() >= 8 {
            sessions.push(std::mem::replace(&mut ops, vec![]));
        }
    }
    sessions.push(ops);
    for (i, (m, f)) in pats.iter().enumerate() {
        if m >> 3 != 0 && (thorough || i % 9 == (seed % 9) as usize) {
            sessions.push(vec![json!({"op": "finalexp", "f": f, "cls": format!("shape-direct-{:02x}", m)})]);
        }
    }
    // direct evaluations (about 30 s of TLC each): w, units with zero components, Miller outputs, random
    let mut direct: Vec<(Value, &str)> = vec![
        (json!([z6, [o2, z2, z2]]), "w"),
        (json!([z6, [z2, o2, z2]]), "v*w"),
        (json!([[o2, z2, z2], [o2, z2, z2]]), "1+w"),
        (json!([[z2, z2, rand_f2(&mut r, &fq)], [z2, rand_f2(&mut r, &fq), z2]]), "sparse"),
    ];
    let n = if thorough { 60 } else { 8 };
    for _ in 0..n {
        direct.push((rand_f12(&mut r, &fq), "rand"));
    }
    // elements of norm one over Fq6 (conj(m)/m) and elements already in the target group
    {
        use ff::Field;
        use pairing::bls12_381::{Bls12, Fq12};
        use pairing::Engine;
        for i in 0..(if thorough { 8 } else { 2 }) {
            let m = Fq12::from_j(&rand_f12(&mut r, &fq));
            let mut u = m;
            u.conjugate();
            u.mul_assign(&m.inverse().unwrap());
            direct.push((u.to_j(), "unitary"));
            if i % 2 == 0 {
                direct.push((Bls12::final_exponentiation(&m).unwrap().to_j(), "already-in-Gt"));
            }
        }
    }
    for (f, cls) in direct {
        sessions.push(vec![json!({"op": "finalexp", "f": f, "cls": cls})]);
    }
    // adjacency on one thread: an argument, then values derived from it the way the routine itself derives
    // them (its easy part, its result, its unitary quotient), then the argument again
    {
        use ff::Field;
        use pairing::bls12_381::{Bls12, Fq12};
        use pairing::Engine;
        for _ in 0..(if thorough { 3 } else { 1 }) {
            let f = Fq12::from_j(&rand_f12(&mut r, &fq));
            let mut u = f;
            u.conjugate();
            u.mul_assign(&f.inverse().unwrap());          // f^(q^6 - 1)
            let mut easy = u;
            easy.frobenius_map(2);
            easy.mul_assign(&u);                           // f^((q^6 - 1)(q^2 + 1))
            let fe = Bls12::final_exponentiation(&f).unwrap();
            let seq = vec![f, easy, f, u, fe, easy, f];
            let ops: Vec<Value> = seq.iter().map(|x| json!({"op": "finalexp", "f": x.to_j(), "cheap": true, "cls": "adjacent-derived"})).collect();
            let mut ops2 = ops.clone();
            // relations that pin the values down: FE(easy) = FE(f)^((q^6-1)(q^2+1)) is checked through
            // multiplicativity against the individually validated arguments
            ops2.push(json!({"op": "ferel", "f": f.to_j(), "g": easy.to_j(), "cls": "adjacent-derived"}));
            ops2.push(json!({"op": "ferel", "f": easy.to_j(), "g": u.to_j(), "cls": "adjacent-derived"}));
            sessions.push(ops2);
            sessions.push(vec![json!({"op": "finalexp", "f": f.to_j(), "cheap": true, "cls": "adjacent-derived"}),
                               json!({"op": "finalexp", "f": easy.to_j(), "cls": "adjacent-derived-direct"})]);
        }
    }
    // g^(q^k) / g for k = 1, 2, 3 (norm one down to Fq, Fq2, Fq4 resp. - unitary at one level only), and
    // unit-circle elements of the subfields
    {
        use ff::Field;
        use pairing::bls12_381::{Fq12, Fq2, Fq6};
        let mut ops = vec![];
        for i in 0..(if thorough { 4 } else { 1 }) {
            let g0 = Fq12::from_j(&rand_f12(&mut r, &fq));
            for k in [1usize, 2, 3, 4].iter() {
                let mut f = g0;
                f.frobenius_map(*k);
                f.mul_assign(&g0.inverse().unwrap());
                let cls = format!("frobenius{}-quotient", k);
                ops.push(json!({"op": "finalexp", "f": f.to_j(), "cheap": true, "cls": cls}));
                ops.push(json!({"op": "ferel", "f": f.to_j(), "g": rand_f12(&mut r, &fq), "cls": cls}));
                if i == 0 && *k == 1 {
                    sessions.push(vec![json!({"op": "finalexp", "f": f.to_j(), "cls": format!("{}-direct", cls)})]);
                }
            }
            // unit circle of Fq2 and norm-one elements of Fq6 over Fq2, embedded
            let a = Fq2::from_j(&rand_f2(&mut r, &fq));
            let mut u2 = a;
            u2.frobenius_map(1);
            u2.mul_assign(&a.inverse().unwrap());
            ops.push(json!({"op": "finalexp", "f": json!([[u2.to_j(), z2, z2], z6]), "cls": "Fq2-unit-circle"}));
            let b = Fq6::from_j(&rand_f6(&mut r, &fq));
            let mut u6 = b;
            u6.frobenius_map(1);
            u6.mul_assign(&b.inverse().unwrap());
            ops.push(json!({"op": "finalexp", "f": json!([u6.to_j(), z6]), "cls": "Fq6-frobenius-quotient"}));
            let mut f = Fq12::from_j(&json!([[u2.to_j(), z2, z2], [z2, rand_f2(&mut r, &fq), z2]]));
            f.mul_assign(&g0);
            ops.push(json!({"op": "ferel", "f": f.to_j(), "g": json!([[u2.to_j(), z2, z2], z6]), "cls": "Fq2-unit-circle"}));
        }
        sessions.push(ops);
    }
    // products of an element of a proper subfield (Fq, Fq2, Fq4 = Fq2(v w), Fq6) with a unitary element:
    // their norm down to Fq6 lies in a smaller field without being 1
    {
        use ff::Field;
        use pairing::bls12_381::Fq12;
        let mut ops = vec![];
        for i in 0..(if thorough { 6 } else { 2 }) {
            let m = Fq12::from_j(&rand_f12(&mut r, &fq));
            let mut u = m;
            u.conjugate();
            u.mul_assign(&m.inverse().unwrap());
            let two = w_add_small(&z, 2);
            let subs: Vec<(Value, &str)> = vec![
                (json!([[f2(&two, &z), z2, z2], z6]), "Fq-small"),
                (json!([[f2(&rand_elem(&mut r, &fq), &z), z2, z2], z6]), "Fq"),
                (json!([[rand_f2(&mut r, &fq), z2, z2], z6]), "Fq2"),
                (json!([[rand_f2(&mut r, &fq), z2, z2], [z2, rand_f2(&mut r, &fq), z2]]), "Fq4"),
                (json!([rand_f6(&mut r, &fq), z6]), "Fq6"),
            ];
            for (s, cs) in subs.iter() {
                let mut f = Fq12::from_j(s);
                f.mul_assign(&u);
                let cls = format!("{}-times-unitary", cs);
                ops.push(json!({"op": "finalexp", "f": f.to_j(), "cheap": true, "cls": cls}));
                ops.push(json!({"op": "ferel", "f": f.to_j(), "g": rand_f12(&mut r, &fq), "cls": cls}));
                if i == 0 && (*cs == "Fq2" || *cs == "Fq4" || thorough) {
                    sessions.push(vec![json!({"op": "finalexp", "f": f.to_j(), "cls": format!("{}-direct", cls)})]);
                }
            }
        }
        sessions.push(ops);
    }
    // relations between library results: multiplicativity, order r
    for _ in 0..(if thorough { 200 } else { 14 }) {
        sessions.push(vec![json!({"op": "ferel", "f": rand_f12(&mut r, &fq), "g": rand_f12(&mut r, &fq), "cls": "multiplicative"})]);
    }
    sessions
}
