//! Group-level operations: the register machine of C01 (projective and affine
//! register files per group), scalar multiplication paths (C02), MSM (C10).
use crate::j::*;
use ff::{Field, PrimeField};
use pairing::bls12_381::{Fq, Fq2, FrRepr, G1Affine, G2Affine, G1, G2};
use pairing::{CurveAffine, CurveProjective, Wnaf};
use serde_json::{json, Value};

pub struct Regs<G: Grp> {
    pub p: Vec<G>,
    pub a: Vec<G::Affine>,
}
impl<G: Grp> Regs<G> {
    pub fn new() -> Self {
        Regs {
            p: vec![G::zero(); 8],
            a: vec![<G::Affine as CurveAffine>::zero(); 8],
        }
    }
}

fn idx(op: &Value, k: &str) -> usize {
    op[k].as_u64().unwrap_or_else(|| panic!("missing register index {}", k)) as usize
}

pub fn scalar_repr(v: &Value) -> FrRepr {
    fr_repr(v)
}

/// one step of the register machine; returns the "out" value
macro_rules! exec_cm_impl {
    ($name:ident, $G:ty, $A:ty, $B:ty) => {
        pub fn $name(r: &mut Regs<$G>, op: &Value) -> Value {
    let f = op["fn"].as_str().unwrap();
    match f {
        "reset" => {
            *r = Regs::new();
            json!(true)
        }
        // raw Jacobian triple into a projective register
        "load" => {
            let d = idx(op, "d");
            r.p[d] = j_to_proj::<$G>(&op["v"]);
            proj_to_j(&r.p[d])
        }
        // raw affine record into an affine register
        "load_aff" => {
            let d = idx(op, "d");
            r.a[d] = j_to_aff::<$G>(&op["v"]);
            aff_to_j(&r.a[d])
        }
        "zero" => {
            let d = idx(op, "d");
            r.p[d] = <$G>::zero();
            proj_to_j(&r.p[d])
        }
        "one" => {
            let d = idx(op, "d");
            r.p[d] = <$G>::one();
            proj_to_j(&r.p[d])
        }
        "zero_aff" => {
            let d = idx(op, "d");
            r.a[d] = <$A>::zero();
            aff_to_j(&r.a[d])
        }
        "one_aff" => {
            let d = idx(op, "d");
            r.a[d] = <$A>::one();
            aff_to_j(&r.a[d])
        }
        // same point, other representative: (l^2 X, l^3 Y, l Z)
        "rescale" => {
            let d = idx(op, "d");
            let (x, y, z) = {
                let (x, y, z) = r.p[d].as_tuple();
                (*x, *y, *z)
            };
            // "rel": choose the factor so that the representative's Z relates to register s's Z
            // (same Z, opposite Z) - operands of one formula that share their scale
            let l = match op.get("rel").and_then(|v| v.as_str()) {
                Some(rel) => {
                    let zs = *r.p[idx(op, "s")].as_tuple().2;
                    match z.inverse() {
                        Some(zi) if !zs.is_zero() => {
                            let mut l = zs;
                            l.mul_assign(&zi);
                            if rel == "neg" {
                                l.negate();
                            }
                            l
                        }
                        _ => <$B>::one(),
                    }
                }
                None => <$B>::from_j(&op["lam"]),
            };
            let mut l2 = l;
            l2.square();
            let mut l3 = l2;
            l3.mul_assign(&l);
            let mut nx = x;
            nx.mul_assign(&l2);
            let mut ny = y;
            ny.mul_assign(&l3);
            let mut nz = z;
            nz.mul_assign(&l);
            r.p[d] = <$G>::raw(nx, ny, nz);
            proj_to_j(&r.p[d])
        }
        "copy" => {
            let (d, s) = (idx(op, "d"), idx(op, "s"));
            r.p[d] = r.p[s];
            proj_to_j(&r.p[d])
        }
        "add" => {
            let (d, s) = (idx(op, "d"), idx(op, "s"));
            let o = r.p[s];
            r.p[d].add_assign(&o);
            proj_to_j(&r.p[d])
        }
        "sub" => {
            let (d, s) = (idx(op, "d"), idx(op, "s"));
            let o = r.p[s];
            r.p[d].sub_assign(&o);
            proj_to_j(&r.p[d])
        }
        "add_mixed" => {
            let (d, s) = (idx(op, "d"), idx(op, "s"));
            let o = r.a[s];
            r.p[d].add_assign_mixed(&o);
            proj_to_j(&r.p[d])
        }
        "sub_mixed" => {
            let (d, s) = (idx(op, "d"), idx(op, "s"));
            let o = r.a[s];
            r.p[d].sub_assign_mixed(&o);
            proj_to_j(&r.p[d])
        }
        "double" => {
            let d = idx(op, "d");
            r.p[d].double();
            proj_to_j(&r.p[d])
        }
        "negate" => {
            let d = idx(op, "d");
            r.p[d].negate();
            proj_to_j(&r.p[d])
        }
        "negate_aff" => {
            let d = idx(op, "d");
            r.a[d].negate();
            aff_to_j(&r.a[d])
        }
        "into_affine" => {
            let (d, s) = (idx(op, "d"), idx(op, "s"));
            r.a[d] = r.p[s].into_affine();
            aff_to_j(&r.a[d])
        }
        "into_projective" => {
            let (d, s) = (idx(op, "d"), idx(op, "s"));
            r.p[d] = r.a[s].into_projective();
            proj_to_j(&r.p[d])
        }
        // == and != are separate trait methods: an event is TRUE only if both say "equal"
        "eq" => {
            let (x, y) = (r.p[idx(op, "d")], r.p[idx(op, "s")]);
            let (e1, e2) = (x == y, !(x != y));
            if e1 != e2 { json!("eq-ne-disagree") } else { json!(e1) }
        }
        "eq_aff" => {
            let (x, y) = (r.a[idx(op, "d")], r.a[idx(op, "s")]);
            let (e1, e2) = (x == y, !(x != y));
            if e1 != e2 { json!("eq-ne-disagree") } else { json!(e1) }
        }
        "is_zero" => json!(r.p[idx(op, "d")].is_zero()),
        "is_zero_aff" => json!(r.a[idx(op, "d")].is_zero()),
        "is_normalized" => json!(r.p[idx(op, "d")].is_normalized()),
        "batch_normalization" => {
            let regs: Vec<usize> = op["regs"]
                .as_array()
                .unwrap()
                .iter()
                .map(|x| x.as_u64().unwrap() as usize)
                .collect();
            let mut v: Vec<$G> = regs.iter().map(|i| r.p[*i]).collect();
            <$G>::batch_normalization(&mut v);
            for (k, i) in regs.iter().enumerate() {
                r.p[*i] = v[k];
            }
            json!(v
                .iter()
                .map(|p| json!([proj_to_j(p), p.is_normalized()]))
                .collect::<Vec<_>>())
        }
        // a long slice built from the registers by a pattern (register index per entry)
        "batch_long" => {
            let pat: Vec<usize> = op["pattern"].as_array().unwrap().iter().map(|x| x.as_u64().unwrap() as usize).collect();
            let mut v: Vec<$G> = pat.iter().map(|i| r.p[*i]).collect();
            <$G>::batch_normalization(&mut v);
            json!(v.iter().map(|p| json!([proj_to_j(p), p.is_normalized()])).collect::<Vec<_>>())
        }
        "mul" => {
            let d = idx(op, "d");
            r.p[d].mul_assign(scalar_repr(&op["k"]));
            proj_to_j(&r.p[d])
        }
        "mul_aff" => {
            let (d, s) = (idx(op, "d"), idx(op, "s"));
            r.p[d] = r.a[s].mul(scalar_repr(&op["k"]));
            proj_to_j(&r.p[d])
        }
        _ => panic!("unknown cm fn {}", f),
    }
        }
    };
}
exec_cm_impl!(exec_cm_g1, G1, G1Affine, Fq);
exec_cm_impl!(exec_cm_g2, G2, G2Affine, Fq2);


/// all scalar-multiplication paths for one (P, k): C02
macro_rules! exec_smul_impl {
    ($name:ident, $G:ty, $A:ty, $B:ty) => {
        pub fn $name(op: &Value) -> Value {
    let p: $G = j_to_proj::<$G>(&op["p"]);
    let pa = p.into_affine();
    let k = scalar_repr(&op["k"]);
    let mut out = serde_json::Map::new();
    // plain paths: every 256-bit k
    let mut q = p;
    q.mul_assign(k);
    out.insert("mul_assign".into(), proj_to_j(&q));
    out.insert("affine_mul".into(), proj_to_j(&pa.mul(k)));
    // the same through the scalar-field type (Into<Repr> of an Fr element), for canonical k
    if let Ok(kf) = <pairing::bls12_381::Fr as ff::PrimeField>::from_repr(k) {
        let mut q2 = p;
        q2.mul_assign(kf);
        out.insert("mul_assign_fr".into(), proj_to_j(&q2));
        out.insert("affine_mul_fr".into(), proj_to_j(&pa.mul(kf)));
    }
    // table-driven paths with the library's own tables
    // the caller's buffers are NOT fresh: they hold other points (reused tables)
    let junk = { let mut t = <$G>::one(); t.double(); t.into_affine() };
    let mut pre3 = vec![junk; 3];
    pa.precomp_3(&mut pre3);
    out.insert("mul_precomp_3".into(), proj_to_j(&pa.mul_precomp_3(k, &pre3)));
    out.insert(
        "pre3".into(),
        Value::Array(pre3.iter().map(|x| aff_to_j(x)).collect()),
    );
    let mut pre256 = vec![junk; 256];
    pa.precomp_256(&mut pre256);
    out.insert(
        "mul_precomp_256".into(),
        proj_to_j(&pa.mul_precomp_256(k, &pre256)),
    );
    // sampled table entries (index list chosen by the script)
    if let Some(ix) = op["pre256_idx"].as_array() {
        out.insert(
            "pre256".into(),
            Value::Array(
                ix.iter()
                    .map(|i| aff_to_j(&pre256[i.as_u64().unwrap() as usize]))
                    .collect(),
            ),
        );
    }
    // wNAF: only for k < 2^255 (the property's domain)
    let small = k.0[3] >> 63 == 0;
    if small {
        if let Some(ws) = op["windows"].as_array() {
            let mut res = vec![];
            for w in ws {
                let w = w.as_u64().unwrap() as usize;
                let mut table = vec![];
                let mut digits = vec![];
                pairing::verif_wnaf::wnaf_table(&mut table, p, w);
                pairing::verif_wnaf::wnaf_form(&mut digits, k, w);
                let r: $G = pairing::verif_wnaf::wnaf_exp(&table, &digits);
                let mut e = serde_json::Map::new();
                e.insert("w".into(), json!(w));
                e.insert("r".into(), proj_to_j(&r));
                e.insert("tlen".into(), json!(table.len()));
                if op["log_digits"].as_bool().unwrap_or(false) {
                    e.insert("digits".into(), json!(digits));
                }
                res.push(Value::Object(e));
            }
            out.insert("wnaf".into(), Value::Array(res));
        } else {
            out.insert("wnaf".into(), json!([]));
        }
        let mut ctx = Wnaf::new();
        let r1: $G = ctx.base(p, 1).scalar(k);
        out.insert("wnaf_base_scalar".into(), proj_to_j(&r1));
        let mut ctx2 = Wnaf::new();
        let r2: $G = ctx2.scalar(k).base(p);
        out.insert("wnaf_scalar_base".into(), proj_to_j(&r2));
        out.insert(
            "rec_scalar".into(),
            json!(<$G>::recommended_wnaf_for_scalar(k)),
        );
    }
    Value::Object(out)
        }
    };
}
exec_smul_impl!(exec_smul_g1, G1, G1Affine, Fq);
exec_smul_impl!(exec_smul_g2, G2, G2Affine, Fq2);


pub fn scalars_of(v: &Value) -> Vec<[u64; 4]> {
    v.as_array()
        .unwrap()
        .iter()
        .map(|s| {
            let w = nat_to_words(s, 4).unwrap();
            [w[0], w[1], w[2], w[3]]
        })
        .collect()
}

/// multi-scalar multiplication: C10
macro_rules! exec_msm_impl {
    ($name:ident, $G:ty, $A:ty, $B:ty) => {
        pub fn $name(op: &Value) -> Value {
    let pts: Vec<$A> = op["points"]
        .as_array()
        .unwrap()
        .iter()
        .map(|p| j_to_aff::<$G>(p))
        .collect();
    let sc = scalars_of(&op["scalars"]);
    let scr: Vec<&[u64; 4]> = sc.iter().collect();
    let mut out = serde_json::Map::new();
    let n = std::cmp::min(pts.len(), sc.len());
    match op["fn"].as_str().unwrap() {
        "default" => {
            out.insert(
                "r".into(),
                proj_to_j(&<$A>::sum_of_products(&pts, &scr)),
            );
            out.insert(
                "window".into(),
                json!(<$A>::find_pippinger_window(n)),
            );
        }
        "pippenger" => {
            let w = op["window"].as_u64().unwrap() as usize;
            out.insert(
                "r".into(),
                proj_to_j(&<$A>::sum_of_products_pippinger(
                    &pts, &scr, w,
                )),
            );
        }
        // bucket method with the per-window recorder switched on (white box)
        "pippenger_w" => {
            let w = op["window"].as_u64().unwrap() as usize;
            pairing::verif_pippenger::start();
            let r = <$A>::sum_of_products_pippinger(&pts, &scr, w);
            let rec = pairing::verif_pippenger::take();
            out.insert("r".into(), proj_to_j(&r));
            out.insert(
                "iters".into(),
                Value::Array(rec.iter().map(|(b, nd, m, ds)| json!([b, nd, m, ds])).collect()),
            );
        }
        "precomp" => {
            // a reused (non-zero) table buffer: precomp_256 must overwrite every entry
            let junk = { let mut t = <$G>::one(); t.double(); t.into_affine() };
            let mut pre = vec![junk; 256 * pts.len()];
            for i in 0..pts.len() {
                pts[i].precomp_256(&mut pre[i * 256..(i + 1) * 256]);
            }
            out.insert(
                "r".into(),
                proj_to_j(&<$A>::sum_of_products_precomp_256(
                    &pts, &scr, &pre,
                )),
            );
        }
        f => panic!("unknown msm fn {}", f),
    }
    Value::Object(out)
        }
    };
}
exec_msm_impl!(exec_msm_g1, G1, G1Affine, Fq);
exec_msm_impl!(exec_msm_g2, G2, G2Affine, Fq2);


/// MSM over a table of small multiples of one base point (large inputs): C10
macro_rules! exec_msml_impl {
    ($name:ident, $G:ty, $A:ty, $B:ty) => {
        pub fn $name(op: &Value) -> Value {
    let b: $A = j_to_aff::<$G>(&op["base"]);
    // table[j] = [j - 8] B for j = 0..16 (input preparation; certified by the specification)
    let mut table: Vec<$A> = vec![<$A>::zero(); 17];
    let mut acc = <$G>::zero();
    for j in 1..=8 {
        acc.add_assign_mixed(&b);
        table[8 + j] = acc.into_affine();
        let mut n = acc;
        n.negate();
        table[8 - j] = n.into_affine();
    }
    let pts: Vec<$A> = op["a"]
        .as_array()
        .unwrap()
        .iter()
        .map(|a| table[(a.as_i64().unwrap() + 8) as usize])
        .collect();
    let sc = scalars_of(&op["scalars"]);
    let scr: Vec<&[u64; 4]> = sc.iter().collect();
    let n = std::cmp::min(pts.len(), sc.len());
    let mut out = serde_json::Map::new();
    out.insert(
        "table".into(),
        Value::Array(table.iter().map(|x| aff_to_j(x)).collect()),
    );
    match op["fn"].as_str().unwrap() {
        "default" => {
            out.insert(
                "r".into(),
                proj_to_j(&<$A>::sum_of_products(&pts, &scr)),
            );
            out.insert(
                "window".into(),
                json!(<$A>::find_pippinger_window(n)),
            );
        }
        "pippenger" => {
            let w = op["window"].as_u64().unwrap() as usize;
            out.insert(
                "r".into(),
                proj_to_j(&<$A>::sum_of_products_pippinger(
                    &pts, &scr, w,
                )),
            );
        }
        "precomp" => {
            let junk = { let mut t = <$G>::one(); t.double(); t.into_affine() };
            let mut pre = vec![junk; 256 * pts.len()];
            for i in 0..pts.len() {
                pts[i].precomp_256(&mut pre[i * 256..(i + 1) * 256]);
            }
            out.insert(
                "r".into(),
                proj_to_j(&<$A>::sum_of_products_precomp_256(
                    &pts, &scr, &pre,
                )),
            );
        }
        f => panic!("unknown msml fn {}", f),
    }
    Value::Object(out)
        }
    };
}
exec_msml_impl!(exec_msml_g1, G1, G1Affine, Fq);
exec_msml_impl!(exec_msml_g2, G2, G2Affine, Fq2);


pub struct CurveState {
    pub g1: Regs<G1>,
    pub g2: Regs<G2>,
}
impl CurveState {
    pub fn new() -> Self {
        CurveState {
            g1: Regs::new(),
            g2: Regs::new(),
        }
    }
}
