//! expand_message / hash_to_field / hash_to_curve with a *traced* hash: the
//! library is generic over the hash function, so the harness instantiates it
//! with a wrapper that forwards to sha2/sha3 and records every (input, output)
//! pair.  The specification treats the hash as an uninterpreted function whose
//! graph is exactly this record.
use crate::j::*;
use digest::generic_array::typenum::{U128, U48, U64};
use digest::generic_array::GenericArray;
use digest::{BlockInput, ExtendableOutput, FixedOutput, Input, Reset, XofReader};
use pairing::bls12_381::{Fq, Fq2, Fr, G1, G2};
use pairing::hash_to_curve::HashToCurve;
use pairing::hash_to_field::{hash_to_field, BaseFromRO, ExpandMsg, ExpandMsgXmd, ExpandMsgXof, FromRO};
use serde_json::{json, Value};
use std::cell::RefCell;

thread_local! {
    static HLOG: RefCell<Vec<(Vec<u8>, Vec<u8>)>> = RefCell::new(vec![]);
}
fn hlog_take() -> Value {
    HLOG.with(|l| {
        let v: Vec<Value> = l
            .borrow()
            .iter()
            .map(|(i, o)| json!([bytes_to_j(i), bytes_to_j(o)]))
            .collect();
        l.borrow_mut().clear();
        Value::Array(v)
    })
}

#[derive(Clone, Default)]
pub struct Traced<H> {
    inner: H,
    buf: Vec<u8>,
}
impl<H: Input> Input for Traced<H> {
    fn input<B: AsRef<[u8]>>(&mut self, data: B) {
        self.buf.extend_from_slice(data.as_ref());
        self.inner.input(data);
    }
}
impl<H: FixedOutput> FixedOutput for Traced<H> {
    type OutputSize = H::OutputSize;
    fn fixed_result(self) -> GenericArray<u8, Self::OutputSize> {
        let Traced { inner, buf } = self;
        let r = inner.fixed_result();
        HLOG.with(|l| l.borrow_mut().push((buf, r.to_vec())));
        r
    }
}
impl<H: Reset> Reset for Traced<H> {
    fn reset(&mut self) {
        self.inner.reset();
        self.buf.clear();
    }
}
impl<H: BlockInput> BlockInput for Traced<H> {
    type BlockSize = H::BlockSize;
}
pub struct TracedReader<R> {
    inner: R,
    input: Vec<u8>,
}
impl<R: XofReader> XofReader for TracedReader<R> {
    fn read(&mut self, buffer: &mut [u8]) {
        self.inner.read(buffer);
        HLOG.with(|l| l.borrow_mut().push((self.input.clone(), buffer.to_vec())));
    }
}
impl<H: ExtendableOutput> ExtendableOutput for Traced<H> {
    type Reader = TracedReader<H::Reader>;
    fn xof_result(self) -> Self::Reader {
        let Traced { inner, buf } = self;
        TracedReader {
            inner: inner.xof_result(),
            input: buf,
        }
    }
}

/// A stand-in "hash" with STRUCTURED digests (the library is generic over the hash, and the
/// specification treats it as an uninterpreted function): a deterministic function of the input whose
/// 32-byte outputs come from a catalogue - all zero, leading zero words, all ones, a single low bit,
/// pseudo-random - so that the field-reduction stage of hash_to_field / hash_to_curve sees blocks no
/// real hash would ever produce for a message one can find.
#[derive(Clone, Default)]
pub struct Toy {
    acc: u64,
    n: u64,
}
impl Input for Toy {
    fn input<B: AsRef<[u8]>>(&mut self, data: B) {
        for b in data.as_ref() {
            self.acc = (self.acc ^ (*b as u64)).wrapping_mul(0x100000001b3).rotate_left(7);
            self.n += 1;
        }
    }
}
impl FixedOutput for Toy {
    type OutputSize = digest::generic_array::typenum::U32;
    fn fixed_result(self) -> GenericArray<u8, Self::OutputSize> {
        let mut out = GenericArray::<u8, Self::OutputSize>::default();
        let mut s = self.acc ^ self.n.wrapping_mul(0x9e3779b97f4a7c15);
        let mut next = || { s ^= s << 13; s ^= s >> 7; s ^= s << 17; s };
        let kind = next() % 8;
        for b in out.iter_mut() {
            *b = next() as u8;
        }
        match kind {
            0 => for b in out.iter_mut() { *b = 0; },
            1 => for b in out.iter_mut().take(4) { *b = 0; },
            2 => for b in out.iter_mut().take(8) { *b = 0; },
            3 => for b in out.iter_mut() { *b = 0xff; },
            4 => { for b in out.iter_mut() { *b = 0; } out[31] = 1; }
            5 => for b in out.iter_mut().take(16) { *b = 0; },
            _ => {}
        }
        out
    }
}
impl Reset for Toy {
    fn reset(&mut self) {
        self.acc = 0;
        self.n = 0;
    }
}
impl BlockInput for Toy {
    type BlockSize = U64;
}

type XToy = ExpandMsgXmd<Traced<Toy>>;
type X256 = ExpandMsgXmd<Traced<sha2::Sha256>>;
type X512 = ExpandMsgXmd<Traced<sha2::Sha512>>;
type X224 = ExpandMsgXmd<Traced<sha2::Sha224>>;
type X384 = ExpandMsgXmd<Traced<sha2::Sha384>>;
type S128 = ExpandMsgXof<Traced<sha3::Shake128>>;
type S256 = ExpandMsgXof<Traced<sha3::Shake256>>;

fn expand(x: &str, msg: &[u8], dst: &[u8], len: usize) -> Vec<u8> {
    match x {
        "xmd-sha256" => X256::expand_message(msg, dst, len),
        "xmd-sha512" => X512::expand_message(msg, dst, len),
        "xmd-sha224" => X224::expand_message(msg, dst, len),
        "xmd-toy" => XToy::expand_message(msg, dst, len),
        "xmd-sha384" => X384::expand_message(msg, dst, len),
        "xof-shake128" => S128::expand_message(msg, dst, len),
        "xof-shake256" => S256::expand_message(msg, dst, len),
        _ => panic!("unknown expander {}", x),
    }
}
fn h2f<T: FromRO + J>(x: &str, msg: &[u8], dst: &[u8], count: usize) -> Value {
    let v: Vec<T> = match x {
        "xmd-sha256" => hash_to_field::<T, X256>(msg, dst, count),
        "xmd-sha512" => hash_to_field::<T, X512>(msg, dst, count),
        "xmd-sha224" => hash_to_field::<T, X224>(msg, dst, count),
        "xmd-toy" => hash_to_field::<T, XToy>(msg, dst, count),
        "xmd-sha384" => hash_to_field::<T, X384>(msg, dst, count),
        "xof-shake128" => hash_to_field::<T, S128>(msg, dst, count),
        "xof-shake256" => hash_to_field::<T, S256>(msg, dst, count),
        _ => panic!("unknown expander {}", x),
    };
    Value::Array(v.iter().map(|e| e.to_j()).collect())
}
fn h2c<G: Grp>(x: &str, mode: &str, msg: &[u8], dst: &[u8]) -> Value
where
    G::Base: J,
    G: HashToCurve<X256> + HashToCurve<X512> + HashToCurve<S128> + HashToCurve<S256> + HashToCurve<XToy>,
{
    let p: G = match (x, mode) {
        ("xmd-sha256", "ro") => <G as HashToCurve<X256>>::hash_to_curve(msg, dst),
        ("xmd-sha256", "nu") => <G as HashToCurve<X256>>::encode_to_curve(msg, dst),
        ("xmd-toy", "ro") => <G as HashToCurve<XToy>>::hash_to_curve(msg, dst),
        ("xmd-toy", "nu") => <G as HashToCurve<XToy>>::encode_to_curve(msg, dst),
        ("xmd-sha512", "ro") => <G as HashToCurve<X512>>::hash_to_curve(msg, dst),
        ("xmd-sha512", "nu") => <G as HashToCurve<X512>>::encode_to_curve(msg, dst),
        ("xof-shake128", "ro") => <G as HashToCurve<S128>>::hash_to_curve(msg, dst),
        ("xof-shake128", "nu") => <G as HashToCurve<S128>>::encode_to_curve(msg, dst),
        ("xof-shake256", "ro") => <G as HashToCurve<S256>>::hash_to_curve(msg, dst),
        ("xof-shake256", "nu") => <G as HashToCurve<S256>>::encode_to_curve(msg, dst),
        _ => panic!("unknown expander/mode"),
    };
    proj_to_j(&p)
}

pub fn exec_hash(op: &Value) -> Value {
    HLOG.with(|l| l.borrow_mut().clear());
    let r = std::panic::catch_unwind(std::panic::AssertUnwindSafe(|| exec_hash_inner(op)));
    let h = hlog_take();
    match r {
        Ok(mut v) => {
            v.as_object_mut().unwrap().insert("H".into(), h);
            v.as_object_mut().unwrap().insert("aborted".into(), json!(false));
            v
        }
        Err(_) => json!({"aborted": true, "H": h}),
    }
}

fn exec_hash_inner(op: &Value) -> Value {
    let x = op["x"].as_str().unwrap_or("");
    match op["op"].as_str().unwrap() {
        "xmd" | "xof" => {
            let msg = j_to_bytes(&op["msg"]);
            let dst = j_to_bytes(&op["dst"]);
            // lengths beyond 32 bits are logged as limb arrays ("lenbig")
            let len = match op.get("lenbig") {
                Some(v) => nat_to_words(v, 1).expect("length does not fit usize")[0] as usize,
                None => op["len"].as_u64().unwrap() as usize,
            };
            json!({ "bytes": bytes_to_j(&expand(x, &msg, &dst, len)) })
        }
        "h2f" => {
            let msg = j_to_bytes(&op["msg"]);
            let dst = j_to_bytes(&op["dst"]);
            // counts beyond 32 bits are logged as limb arrays ("countbig")
            let count = match op.get("countbig") {
                Some(v) => nat_to_words(v, 1).expect("count does not fit usize")[0] as usize,
                None => op["count"].as_u64().unwrap() as usize,
            };
            let e = match op["f"].as_str().unwrap() {
                "Fq" => h2f::<Fq>(x, &msg, &dst, count),
                "Fr" => h2f::<Fr>(x, &msg, &dst, count),
                "Fq2" => h2f::<Fq2>(x, &msg, &dst, count),
                f => panic!("unknown field {}", f),
            };
            json!({ "elems": e })
        }
        "okm" => {
            let b = j_to_bytes(&op["bytes"]);
            let e = match op["f"].as_str().unwrap() {
                "Fq" => Fq::from_okm(GenericArray::<u8, U64>::from_slice(&b)).to_j(),
                "Fr" => Fr::from_okm(GenericArray::<u8, U48>::from_slice(&b)).to_j(),
                "Fq2" => Fq2::from_ro(GenericArray::<u8, U128>::from_slice(&b)).to_j(),
                f => panic!("unknown field {}", f),
            };
            json!({ "elem": e })
        }
        "h2c" => {
            let msg = j_to_bytes(&op["msg"]);
            let dst = j_to_bytes(&op["dst"]);
            let mode = op["mode"].as_str().unwrap();
            let r = match op["g"].as_str().unwrap() {
                "G1" => h2c::<G1>(x, mode, &msg, &dst),
                "G2" => h2c::<G2>(x, mode, &msg, &dst),
                _ => panic!("bad group"),
            };
            json!({ "r": r })
        }
        _ => unreachable!(),
    }
}
