//! C20: determinism and independence of concurrent use.  A catalogue of operation
//! instances is executed (1) sequentially - these are ordinary events, judged against the
//! mathematics, and they define the reference value of every instance -, (2) sequentially in
//! another order, (3) from many threads at once, every thread in its own order, including
//! instances that share one wNAF table / one set of prepared pairing elements between threads.
//! Every later execution is logged as a "ret" event carrying the full result.
use crate::j::*;
use crate::wl::*;
use crate::{exec, State};
use pairing::bls12_381::{Bls12, G1Affine, G2Affine, G1};
use pairing::{CurveAffine, CurveProjective, Engine, Wnaf};
use serde_json::{json, Value};
use std::io::Write;
use std::sync::Mutex;

fn catalogue(seed: u64, tier: &str) -> Vec<Value> {
    // cheap, stateless instances drawn from the other properties' workloads
    let mut v: Vec<Value> = vec![];
    let mut take = |name: &str, want: &[&str], n: usize| {
        let mut got = 0;
        for s in generate(name, seed, "quick") {
            for op in s {
                let o = op["op"].as_str().unwrap().to_string();
                if want.contains(&o.as_str()) && got < n && (got * 7 + op.to_string().len()) % 3 == 0 {
                    v.push(op.clone());
                    got += 1;
                }
            }
        }
    };
    let k = if tier == "thorough" { 3 } else { 1 };
    take("c08", &["fp", "repr"], 12 * k);
    take("c09", &["ext"], 10 * k);
    take("c18", &["fp", "ext"], 8 * k);
    take("c02", &["smul"], 2 * k);
    take("c10", &["msm"], 6 * k);
    take("c04", &["decode"], 8 * k);
    take("c05", &["encode"], 4 * k);
    take("c13", &["xmd", "xof", "h2f", "okm"], 8 * k);
    take("c06", &["h2c"], 2 * k);
    take("c15", &["swu"], 4 * k);
    take("c16", &["iso"], 4 * k);
    take("c17", &["clearh"], 2 * k);
    take("c14", &["map"], 2 * k);
    take("c11", &["pairl"], 4 * k);
    take("c12", &["ferel"], 1 * k);
    // calls that ABORT half-way (a scalar with bit 255 set trips the bucket method's assertion after
    // earlier scalars were already scattered): whatever they leave behind must not leak into later
    // calls on the same thread.  Followed in the catalogue by valid calls of several window sizes.
    {
        use pairing::bls12_381::{G1, G2};
        use pairing::{CurveAffine, CurveProjective};
        let mut rng = xs(seed ^ 0x2020);
        let p1: Vec<Value> = (0..20).map(|_| aff_to_j(&G1::random(&mut rng).into_affine())).collect();
        let p2: Vec<Value> = (0..20).map(|_| aff_to_j(&G2::random(&mut rng).into_affine())).collect();
        let mut rr = Rng(seed ^ 0x7777);
        let top = { let mut w = rand_scalar_bits(&mut rr, 250); w[3] |= 0x7c00_0000_0000_0000; w }; // bits 250..254 set
        let bad = w_pow2(255, 4);
        let good: Vec<Value> = (0..20).map(|_| nat(&rand_scalar_bits(&mut rr, 255))).collect();
        for (g, pts) in [("G1", &p1), ("G2", &p2)].iter() {
            for w in [3u64, 5, 8].iter() {
                v.push(json!({"op": "msm", "g": g, "fn": "pippenger", "window": w, "points": pts[..3].to_vec(),
                              "scalars": [nat(&top), nat(&top), nat(&bad)], "xabort": true, "cls": "aborting-call"}));
                v.push(json!({"op": "msm", "g": g, "fn": "pippenger", "window": w, "points": pts.to_vec(),
                              "scalars": good.clone(), "cls": "after-aborting-call"}));
            }
            v.push(json!({"op": "msm", "g": g, "fn": "default", "points": pts.to_vec(), "scalars": good.clone(), "cls": "after-aborting-call"}));
        }
    }
    // calls that stay inside the library for a while (so that the lock-step phase really has many
    // threads inside the same entry point at once): MSM over a few hundred labelled points
    {
        use pairing::bls12_381::{G1, G2};
        use pairing::CurveProjective;
        let mut rr = Rng(seed ^ 0x3131);
        for (g, n) in [("G1", 400usize), ("G2", 150)].iter() {
            let a: Vec<i64> = (0..*n).map(|_| rr.below(17) as i64 - 8).collect();
            let ks: Vec<Value> = (0..*n).map(|_| nat(&rand_scalar_bits(&mut rr, 255))).collect();
            let base = if *g == "G1" { aff_to_j(&G1::one().into_affine()) } else { aff_to_j(&G2::one().into_affine()) };
            v.push(json!({"op": "msml", "g": g, "fn": "default", "base": base, "a": a, "scalars": ks, "cls": "long-running-msm"}));
            // the table-driven variant on an input large enough for any internal splitting
            let m = 160usize.min(*n);
            v.push(json!({"op": "msml", "g": g, "fn": "precomp", "base": base, "a": a[..m].to_vec(), "scalars": ks[..m].to_vec(),
                          "cls": "long-running-msm-precomp"}));
        }
    }
    // one entry point, inputs with different verdicts next to each other: for every encoding a valid
    // point, a curve point outside the subgroup, a second valid point, a string without curve point
    {
        use pairing::bls12_381::{G1, G2};
        use pairing::{CurveAffine, CurveProjective, EncodedPoint};
        let mut rng = xs(seed ^ 0x2121);
        let mut rr = Rng(seed ^ 0x2121);
        let mut add = |g: &str, form: &str, b: Vec<u8>, cls: &str| {
            v.push(json!({"op": "decode", "g": g, "form": form, "bytes": bytes_to_j(&b), "cls": cls}));
        };
        for form in ["c", "u"].iter() {
            for k in 0..2 {
                let (a1, f1) = (G1::random(&mut rng).into_affine(), full_order_point::<G1>(&mut rr));
                let (a2, f2) = (G2::random(&mut rng).into_affine(), full_order_point::<G2>(&mut rr));
                if *form == "c" {
                    add("G1", form, a1.into_compressed().as_ref().to_vec(), "verdicts-valid");
                    add("G1", form, f1.into_compressed().as_ref().to_vec(), "verdicts-outside-subgroup");
                    add("G2", form, a2.into_compressed().as_ref().to_vec(), "verdicts-valid");
                    add("G2", form, f2.into_compressed().as_ref().to_vec(), "verdicts-outside-subgroup");
                } else {
                    add("G1", form, a1.into_uncompressed().as_ref().to_vec(), "verdicts-valid");
                    add("G1", form, f1.into_uncompressed().as_ref().to_vec(), "verdicts-outside-subgroup");
                    add("G2", form, a2.into_uncompressed().as_ref().to_vec(), "verdicts-valid");
                    add("G2", form, f2.into_uncompressed().as_ref().to_vec(), "verdicts-outside-subgroup");
                }
                if k == 0 {
                    let mut b = a1.into_uncompressed().as_ref().to_vec();
                    b[95] ^= 1;
                    if *form == "u" { add("G1", form, b, "verdicts-not-on-curve"); }
                    let mut b = a2.into_uncompressed().as_ref().to_vec();
                    b[191] ^= 1;
                    if *form == "u" { add("G2", form, b, "verdicts-not-on-curve"); }
                }
            }
        }
    }
    // decodes that wait for one another (a reader fed by another thread that decodes first)
    {
        use pairing::bls12_381::{G1, G2};
        use pairing::{CurveAffine, CurveProjective, EncodedPoint};
        let mut rng = xs(seed ^ 0x4141);
        for (g, kind, form) in [("G2", "proj", "c"), ("G2", "aff", "c"), ("G1", "proj", "u"), ("G1", "aff", "c"), ("G2", "proj", "u")].iter() {
            let (a, b): (Vec<u8>, Vec<u8>) = if *g == "G1" {
                let (p, q) = (G1::random(&mut rng).into_affine(), G1::random(&mut rng).into_affine());
                if *form == "c" { (p.into_compressed().as_ref().to_vec(), q.into_compressed().as_ref().to_vec()) }
                else { (p.into_uncompressed().as_ref().to_vec(), q.into_uncompressed().as_ref().to_vec()) }
            } else {
                let (p, q) = (G2::random(&mut rng).into_affine(), G2::random(&mut rng).into_affine());
                if *form == "c" { (p.into_compressed().as_ref().to_vec(), q.into_compressed().as_ref().to_vec()) }
                else { (p.into_uncompressed().as_ref().to_vec(), q.into_uncompressed().as_ref().to_vec()) }
            };
            v.push(json!({"op": "pipe", "g": g, "kind": kind, "form": form, "a": bytes_to_j(&a), "b": bytes_to_j(&b), "cls": "mutually-waiting-decodes"}));
        }
    }
    // instances that share part of their input (same message and tag, other expander / field / suite)
    for sess in generate("c13", seed, "quick").into_iter().chain(generate("c06", seed, "quick").into_iter()) {
        for op in sess {
            let c = op["cls"].as_str().unwrap_or("");
            if c == "same-input-other-expander" || c == "same-input-other-suite" {
                if op["g"] != "G2" {
                    v.push(op.clone());
                }
            }
        }
    }
    v
}

type Inst<'a> = Box<dyn Fn() -> Value + Sync + 'a>;

pub fn run(seed: u64, tier: &str, out: &str) {
    let thorough = tier == "thorough";
    let mut r = Rng(seed.wrapping_mul(2020) ^ 20);
    let cat = catalogue(seed, tier);
    // shared structures
    let base = G1::one();
    let mut ctx: Wnaf<(), Vec<G1>, Vec<i64>> = Wnaf::new();
    let nsc = vec![100u64];
    let shared_tbl = ctx.base(base, 100);
    let ks: Vec<W> = (0..4).map(|_| rand_scalar_bits(&mut r, 255)).collect();
    let las: Vec<i64> = vec![1, -2, 3];
    let lbs: Vec<i64> = vec![2, 1, -1];
    let small = |a: i64| pairing::bls12_381::FrRepr::from(a.abs() as u64);
    let ps: Vec<G1Affine> = las.iter().map(|a| { let mut p = G1Affine::one().mul(small(*a)); if *a < 0 { p.negate(); } p.into_affine() }).collect();
    let qs: Vec<G2Affine> = lbs.iter().map(|b| { let mut q = G2Affine::one().mul(small(*b)); if *b < 0 { q.negate(); } q.into_affine() }).collect();
    let pp: Vec<_> = ps.iter().map(|x| x.prepare()).collect();
    let qq: Vec<_> = qs.iter().map(|x| x.prepare()).collect();

    // instances: (reference op to log and judge, closure that recomputes the result)
    let mut refs: Vec<Value> = vec![];
    let mut insts: Vec<Inst> = vec![];
    for op in cat.iter() {
        let o = op.clone();
        refs.push(op.clone());
        insts.push(Box::new(move || {
            let mut st = State::new();
            exec(&mut st, &o)["out"].clone()
        }));
    }
    for k in ks.iter() {
        // reference: a fresh context; concurrent version: the table shared between threads
        refs.push(json!({"op": "wn", "g": "G1", "fn": "base_scalars", "p": proj_to_j(&base), "n": nat(&nsc),
                         "ks": [nat(k)], "cls": "shared-wnaf-table"}));
        let kk = crate::ops_curve::scalar_repr(&nat(k));
        let tbl = &shared_tbl;
        insts.push(Box::new(move || {
            let mut sh = tbl.shared();
            json!([proj_to_j(&sh.scalar::<G1>(kk))])
        }));
    }
    {
        refs.push(json!({"op": "pairl", "fn": "miller", "as": las, "bs": lbs, "plain": true, "cls": "shared-prepared"}));
        let (ppr, qqr, psr, qsr) = (&pp, &qq, &ps, &qs);
        insts.push(Box::new(move || {
            let pairs: Vec<_> = ppr.iter().zip(qqr.iter()).collect();
            let ml = Bls12::miller_loop(pairs.iter());
            let fe = match Bls12::final_exponentiation(&ml) { Some(v) => json!(["some", v.to_j()]), None => json!(["none"]) };
            json!({"ps": psr.iter().map(|x| aff_to_j(x)).collect::<Vec<_>>(),
                   "qs": qsr.iter().map(|x| aff_to_j(x)).collect::<Vec<_>>(), "fe": fe})
        }));
    }
    let n = insts.len();
    let file = std::fs::File::create(format!("{}/conc-000.trace.ndjson", out)).unwrap();
    let w = Mutex::new(std::io::BufWriter::new(file));
    let emit = |v: &Value| {
        let mut g = w.lock().unwrap();
        serde_json::to_writer(&mut *g, v).unwrap();
        g.write_all(b"\n").unwrap();
    };
    // (1) sequential reference run: ordinary events with an instance number
    {
        let mut st = State::new();
        for (i, op) in refs.iter().enumerate() {
            let mut ev = exec(&mut st, op);
            ev.as_object_mut().unwrap().insert("inst".into(), json!(i));
            emit(&ev);
        }
    }
    // instances that must not take part in the permuted / concurrent phases (a blocked decode would hold
    // up every other thread for its whole time-out): executed in the reference run and once more here
    let seq_only: Vec<bool> = refs.iter().map(|o| o["op"] == "pipe").collect();
    // (2) sequential, reversed order (history independence), thread id 0
    let mut seq0 = 0;
    for i in (0..n).rev() {
        seq0 += 1;
        emit(&json!({"op": "ret", "t": 0, "seq": seq0, "inst": i, "val": insts[i](), "panic": false, "cls": "sequential-reversed"}));
        // (instances never unwind: exec() catches a panic of the library and returns its message)
    }
    // (2b) sequential, three more pseudo-random orders: other adjacencies for history-dependent state
    for round in 0..3u64 {
        let mut rr = Rng(seed ^ (0xabcd + round));
        let mut order: Vec<usize> = (0..n).collect();
        for i in (1..n).rev() {
            let j = rr.below(i as u64 + 1) as usize;
            order.swap(i, j);
        }
        for i in order {
            if seq_only[i] {
                continue;
            }
            seq0 += 1;
            emit(&json!({"op": "ret", "t": 0, "seq": seq0, "inst": i, "val": insts[i](), "panic": false, "cls": "sequential-permuted"}));
        }
    }
    // (4) order of the lock-step phase: instances grouped by entry point (operation, group, function,
    // form, type), each group walked through twice, so that neighbouring steps hit the same code with
    // different inputs; at every step ALL threads execute the same instance at the same moment
    let sync_order: Vec<usize> = {
        let key = |op: &Value| format!("{}|{}|{}|{}|{}|{}", op["op"], op["g"], op["fn"], op["form"], op["f"], op["x"]);
        let mut groups: Vec<(String, Vec<usize>)> = vec![];
        for (i, op) in refs.iter().enumerate() {
            if op.get("xabort").is_some() || op["op"] == "pipe" {
                continue;
            }
            let k = key(op);
            match groups.iter_mut().find(|(kk, _)| *kk == k) {
                Some((_, v)) => v.push(i),
                None => groups.push((k, vec![i])),
            }
        }
        let mut o = vec![];
        for (_, g) in groups.iter() {
            for _ in 0..(if thorough { 3 } else { 2 }) {
                o.extend_from_slice(g);
            }
        }
        o
    };
    // (3) concurrent: every thread its own permutation, several rounds
    let threads = 16;
    let barrier = std::sync::Barrier::new(threads);
    let rounds = if thorough { 12 } else { 4 };
    let seeds: Vec<u64> = (0..threads).map(|_| r.next()).collect();
    std::thread::scope(|s| {
        for t in 0..threads {
            let insts = &insts;
            let emit = &emit;
            let seq_only = &seq_only;
            let barrier = &barrier;
            let sync_order = &sync_order;
            let sd = seeds[t];
            s.spawn(move || {
                let mut rr = Rng(sd);
                let mut seq = 0;
                for _ in 0..rounds {
                    let mut order: Vec<usize> = (0..n).collect();
                    for i in (1..n).rev() {
                        let j = rr.below(i as u64 + 1) as usize;
                        order.swap(i, j);
                    }
                    for i in order {
                        if seq_only[i] {
                            continue;
                        }
                        let val = match std::panic::catch_unwind(std::panic::AssertUnwindSafe(|| insts[i]())) {
                            Ok(v) => (v, false),
                            Err(_) => (json!("panic"), true),
                        };
                        seq += 1;
                        emit(&json!({"op": "ret", "t": t + 1, "seq": seq, "inst": i, "val": val.0, "panic": val.1, "cls": "concurrent"}));
                    }
                }
                for &i in sync_order.iter() {
                    barrier.wait();
                    let val = match std::panic::catch_unwind(std::panic::AssertUnwindSafe(|| insts[i]())) {
                        Ok(v) => (v, false),
                        Err(_) => (json!("panic"), true),
                    };
                    seq += 1;
                    emit(&json!({"op": "ret", "t": t + 1, "seq": seq, "inst": i, "val": val.0, "panic": val.1, "cls": "concurrent-lock-step"}));
                }
            });
        }
    });
    w.lock().unwrap().flush().unwrap();
    println!("{{\"instances\": {}, \"threads\": {}, \"rounds\": {}}}", n, threads, rounds);
}
