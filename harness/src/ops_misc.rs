//! Encodings, subgroup predicate, map-to-curve stages, pairings, streams,
//! wNAF contexts.
use crate::j::*;
use crate::ops_curve::{scalar_repr, scalars_of};
use ff::{Field, PrimeField};
use pairing::bls12_381::verif::{ClearH, IsogenyMap, OSSWUMap};
use pairing::bls12_381::{Bls12, Fq12, Fr, G1Affine, G2Affine, G1, G2};
use pairing::map_to_curve::MapToCurve;
use pairing::serdes::SerDes;
use pairing::{CurveAffine, CurveProjective, EncodedPoint, Engine, GroupDecodingError, SubgroupCheck, Wnaf};
use rand_core::SeedableRng;
use serde_json::{json, Value};
use std::io::Cursor;

pub struct MiscState {
    pub wbuf: Vec<u8>,
    pub rd: Cursor<Vec<u8>>,
    pub wn1: Wnaf<(), Vec<G1>, Vec<i64>>,
    pub wn2: Wnaf<(), Vec<G2>, Vec<i64>>,
}
impl MiscState {
    pub fn new() -> Self {
        MiscState {
            wbuf: vec![],
            rd: Cursor::new(vec![]),
            wn1: Wnaf::new(),
            wn2: Wnaf::new(),
        }
    }
}

fn err_name(e: &GroupDecodingError) -> &'static str {
    match e {
        GroupDecodingError::NotOnCurve => "NotOnCurve",
        GroupDecodingError::NotInSubgroup => "NotInSubgroup",
        GroupDecodingError::CoordinateDecodingError(..) => "Coordinate",
        GroupDecodingError::UnexpectedCompressionMode => "UnexpectedCompressionMode",
        GroupDecodingError::UnexpectedInformation => "UnexpectedInformation",
    }
}
fn dec_res<A: CurveAffine>(r: Result<A, GroupDecodingError>) -> Value
where
    A::Base: J,
{
    match r {
        Ok(p) => json!(["ok", aff_to_j(&p)]),
        Err(e) => json!(["err", err_name(&e)]),
    }
}

/// every stream-API entry point on the same bytes: affine and projective types, whole and chunked readers
fn serdes_all<A, G>(bytes: &[u8], c: bool) -> Value
where
    A: CurveAffine<Projective = G> + SerDes,
    G: CurveProjective<Affine = A> + SerDes + Grp,
    A::Base: J,
    G::Base: J,
{
    let mut out = vec![];
    for chunk in [0usize, 1, 7, 48, 95].iter() {
        let mut cur = Cursor::new(bytes.to_vec());
        let ra = if *chunk == 0 { A::deserialize(&mut cur, c) } else { A::deserialize(&mut Chunked { inner: &mut cur, chunk: *chunk }, c) };
        out.push(json!({"ty": "aff", "chunk": chunk, "consumed": cur.position(),
                        "res": match ra { Ok(p) => json!(["ok", aff_to_j(&p)]), Err(_) => json!(["err"]) }}));
        let mut cur = Cursor::new(bytes.to_vec());
        let rp = if *chunk == 0 { G::deserialize(&mut cur, c) } else { G::deserialize(&mut Chunked { inner: &mut cur, chunk: *chunk }, c) };
        out.push(json!({"ty": "proj", "chunk": chunk, "consumed": cur.position(),
                        "res": match rp { Ok(p) => json!(["ok", proj_to_j(&p)]), Err(_) => json!(["err"]) }}));
    }
    // other kinds of readers: a byte slice, two halves chained, a buffered reader
    {
        use std::io::{BufReader, Read};
        let half = bytes.len() / 2;
        let mut sl: &[u8] = bytes;
        let before = sl.len();
        let ra = A::deserialize(&mut sl, c);
        out.push(json!({"ty": "aff", "chunk": "slice", "consumed": before - sl.len(),
                        "res": match ra { Ok(p) => json!(["ok", aff_to_j(&p)]), Err(_) => json!(["err"]) }}));
        let mut sl: &[u8] = bytes;
        let rp = G::deserialize(&mut sl, c);
        out.push(json!({"ty": "proj", "chunk": "slice", "consumed": before - sl.len(),
                        "res": match rp { Ok(p) => json!(["ok", proj_to_j(&p)]), Err(_) => json!(["err"]) }}));
        let mut ch = (&bytes[..half]).chain(&bytes[half..]);
        let ra = A::deserialize(&mut ch, c);
        let mut rest = vec![];
        let _ = ch.read_to_end(&mut rest);
        out.push(json!({"ty": "aff", "chunk": "chain", "consumed": bytes.len() - rest.len(),
                        "res": match ra { Ok(p) => json!(["ok", aff_to_j(&p)]), Err(_) => json!(["err"]) }}));
        let mut ch = (&bytes[..half]).chain(&bytes[half..]);
        let rp = G::deserialize(&mut ch, c);
        let mut rest = vec![];
        let _ = ch.read_to_end(&mut rest);
        out.push(json!({"ty": "proj", "chunk": "chain", "consumed": bytes.len() - rest.len(),
                        "res": match rp { Ok(p) => json!(["ok", proj_to_j(&p)]), Err(_) => json!(["err"]) }}));
        // a buffered reader may read ahead from the underlying stream; what it hands to the decoder is
        // still exactly the encoding (consumption is not observable here and not reported)
        let mut br = BufReader::with_capacity(16, Cursor::new(bytes.to_vec()));
        let rp = G::deserialize(&mut br, c);
        out.push(json!({"ty": "proj", "chunk": "bufreader", "consumed": if rp.is_ok() { bytes.len() } else { 0 },
                        "res": match rp { Ok(p) => json!(["ok", proj_to_j(&p)]), Err(_) => json!(["err"]) }}));
    }
    Value::Array(out)
}

macro_rules! decode_as_impl {
    ($name:ident, $E:ty, $A:ty, $G:ty, $c:expr) => {
        fn $name(bytes: &[u8]) -> Value {
            if bytes.len() != <$E>::size() {
                // not a string of the encoding's length: only the stream API can be handed it
                return json!({"serdes": serdes_all::<$A, $G>(bytes, $c)});
            }
            let mut e = <$E>::empty();
            e.as_mut().copy_from_slice(bytes);
            let checked = e.into_affine();
            let reenc_c = match &checked {
                Ok(p) => json!({
                    "c": bytes_to_j(p.into_compressed().as_ref()),
                    "u": bytes_to_j(p.into_uncompressed().as_ref())}),
                Err(_) => json!(false),
            };
            let unchecked = e.into_affine_unchecked();
            json!({"checked": dec_res(checked), "unchecked": dec_res(unchecked), "reenc": reenc_c,
                   "serdes": serdes_all::<$A, $G>(bytes, $c)})
        }
    };
}
decode_as_impl!(decode_g1c, pairing::bls12_381::G1Compressed, G1Affine, G1, true);
decode_as_impl!(decode_g1u, pairing::bls12_381::G1Uncompressed, G1Affine, G1, false);
decode_as_impl!(decode_g2c, pairing::bls12_381::G2Compressed, G2Affine, G2, true);
decode_as_impl!(decode_g2u, pairing::bls12_381::G2Uncompressed, G2Affine, G2, false);

fn exec_decode(g: &str, op: &Value) -> Value {
    let bytes = j_to_bytes(&op["bytes"]);
    match (g, op["form"].as_str().unwrap()) {
        ("G1", "c") => decode_g1c(&bytes),
        ("G1", "u") => decode_g1u(&bytes),
        ("G2", "c") => decode_g2c(&bytes),
        ("G2", "u") => decode_g2u(&bytes),
        _ => panic!("bad group / form"),
    }
}

macro_rules! exec_encode_impl {
    ($name:ident, $G:ty, $A:ty, $B:ty) => {
        fn $name(op: &Value) -> Value {
    let a: $A = if op.get("pj").is_some() {
        j_to_proj::<$G>(&op["pj"]).into_affine()
    } else {
        j_to_aff::<$G>(&op["p"])
    };
    let c = a.into_compressed();
    let u = a.into_uncompressed();
    let c2 = <<$A as CurveAffine>::Compressed>::from_affine(a);
    let u2 = <<$A as CurveAffine>::Uncompressed>::from_affine(a);
    // the stream writers of both point types, into a vector, into sinks that take the bytes in pieces,
    // and into slices that are too small
    let pj: $G = if op.get("pj").is_some() { j_to_proj::<$G>(&op["pj"]) } else { a.into_projective() };
    let mut ser = vec![];
    for comp in [true, false].iter() {
        let n = if *comp { c.as_ref().len() } else { u.as_ref().len() };
        for kind in [0usize, 1, 7, 95, 1000, 1001].iter() {
            for ty in ["aff", "proj"].iter() {
                let (res, bytes, k) = if *kind < 1000 {
                    let mut w = ChunkWr { buf: vec![], chunk: if *kind == 0 { usize::MAX } else { *kind } };
                    let r = if *ty == "aff" { a.serialize(&mut w, *comp) } else { pj.serialize(&mut w, *comp) };
                    (r.is_ok(), w.buf, if *kind == 0 { "vec" } else { "chunked" })
                } else {
                    let mut space = vec![0u8; if *kind == 1000 { n - 1 } else { n / 2 }];
                    let mut sl: &mut [u8] = &mut space[..];
                    let r = if *ty == "aff" { a.serialize(&mut sl, *comp) } else { pj.serialize(&mut sl, *comp) };
                    (r.is_ok(), vec![], "too-small")
                };
                ser.push(json!({"ty": ty, "c": comp, "kind": k, "res": if res {"ok"} else {"err"}, "bytes": bytes_to_j(&bytes)}));
            }
        }
    }
    json!({
        "ser": ser,
        "aff": aff_to_j(&a),
        "c_from_affine": bytes_to_j(c2.as_ref()), "u_from_affine": bytes_to_j(u2.as_ref()),
        "c": bytes_to_j(c.as_ref()), "u": bytes_to_j(u.as_ref()),
        "dc": dec_res(c.into_affine()), "du": dec_res(u.into_affine()),
        "sizes": [<<$A as CurveAffine>::Compressed>::size(),
                  <<$A as CurveAffine>::Uncompressed>::size()],
    })
        }
    };
}
exec_encode_impl!(exec_encode_g1, G1, G1Affine, pairing::bls12_381::Fq);
exec_encode_impl!(exec_encode_g2, G2, G2Affine, pairing::bls12_381::Fq2);


fn fq12_opt(o: Option<Fq12>) -> Value {
    match o {
        Some(v) => json!(["some", v.to_j()]),
        None => json!(["none"]),
    }
}

fn g1a(v: &Value) -> G1Affine {
    j_to_aff::<G1>(v)
}
fn g2a(v: &Value) -> G2Affine {
    j_to_aff::<G2>(v)
}

macro_rules! exec_stage_impl {
    ($name:ident, $G:ty, $A:ty, $B:ty) => {
        fn $name(op: &Value) -> Value {
    match op["op"].as_str().unwrap() {
        "swu" => proj_to_j(&<$G>::osswu_map(&<$B>::from_j(&op["t"]))),
        "iso" => {
            let mut p = j_to_proj::<$G>(&op["p"]);
            p.isogeny_map();
            proj_to_j(&p)
        }
        "clearh" => {
            let mut p = j_to_proj::<$G>(&op["p"]);
            p.clear_h();
            proj_to_j(&p)
        }
        "map" => proj_to_j(&<$G as MapToCurve<$G>>::map_to_curve(&<$B>::from_j(&op["u"]))),
        // homomorphism: images of p, q and of p + q (sum on the isogenous curve; the library's
        // addition formula does not involve the curve coefficient a, so it is usable for p != +-q;
        // the specification re-derives the sum itself)
        "iso_hom" => {
            let p = j_to_proj::<$G>(&op["p"]);
            let q = j_to_proj::<$G>(&op["q"]);
            let mut s = p;
            s.add_assign(&q);
            let (mut ip, mut iq, mut is) = (p, q, s);
            ip.isogeny_map();
            iq.isogeny_map();
            is.isogeny_map();
            json!({"sum": proj_to_j(&s), "ip": proj_to_j(&ip), "iq": proj_to_j(&iq), "is": proj_to_j(&is)})
        }
        "map2" => proj_to_j(&<$G as MapToCurve<$G>>::map2_to_curve(
            &<$B>::from_j(&op["u0"]),
            &<$B>::from_j(&op["u1"]),
        )),
        _ => unreachable!(),
    }
        }
    };
}
exec_stage_impl!(exec_stage_g1, G1, G1Affine, pairing::bls12_381::Fq);
exec_stage_impl!(exec_stage_g2, G2, G2Affine, pairing::bls12_381::Fq2);


/// C07: points handed out by safe producers (only the produced points are logged)
macro_rules! exec_prod_impl {
    ($name:ident, $G:ty, $A:ty, $B:ty) => {
        fn $name(op: &Value) -> Value {
    use pairing::hash_to_curve::HashToCurve;
    use pairing::hash_to_field::{ExpandMsgXmd, ExpandMsgXof};
    let p = || j_to_proj::<$G>(&op["p"]);
    let q = || j_to_proj::<$G>(&op["q"]);
    let outs: Vec<$G> = match op["fn"].as_str().unwrap() {
        "one" => vec![<$G>::one(), <$A>::one().into_projective(), <$G>::zero()],
        "random" => {
            let mut rng = xs_rng(nat_to_words(&op["seed"], 1).unwrap()[0]);
            (0..op["n"].as_u64().unwrap()).map(|_| <$G>::random(&mut rng)).collect()
        }
        "arith" => {
            let (a, b) = (p(), q());
            let mut v = vec![];
            let mut t = a; t.add_assign(&b); v.push(t);
            let mut t = a; t.sub_assign(&b); v.push(t);
            let mut t = a; t.add_assign_mixed(&b.into_affine()); v.push(t);
            let mut t = a; t.double(); v.push(t);
            let mut t = a; t.negate(); v.push(t);
            let mut t = a; t.add_assign(&a); v.push(t);
            let mut t = a; t.sub_assign(&a); v.push(t);
            v.push(a.into_affine().into_projective());
            // operands that share their Z: a + b with a - b (projective and mixed), both orders
            let (mut s, mut d) = (a, a);
            s.add_assign(&b);
            d.sub_assign(&b);
            let mut t = s; t.add_assign(&d); v.push(t);
            let mut t = d; t.sub_assign(&s); v.push(t);
            let ba = b.into_affine();
            let (mut s, mut d) = (a, a);
            s.add_assign_mixed(&ba);
            d.sub_assign_mixed(&ba);
            let mut t = s; t.add_assign(&d); v.push(t);
            let mut t = s; t.sub_assign(&d); v.push(t);
            // a + b against b + a (same point, opposite Z) and doubles of opposite points
            let (mut x, mut y) = (a, b);
            x.add_assign(&b);
            y.add_assign(&a);
            let mut t = x; t.sub_assign(&y); v.push(t);
            let mut t = x; t.add_assign(&y); v.push(t);
            v
        }
        // batch normalization of a slice mixing normalized, un-normalized and identity entries
        "batch" => {
            let (a, b) = (p(), q());
            let mut d = a;
            d.double();
            let mut t = d;
            t.add_assign(&b);
            let an = a.into_affine().into_projective();
            let pat = op["pattern"].as_u64().unwrap();
            let pool = [d, an, t, <$G>::zero(), b.into_affine().into_projective(), a];
            let mut v: Vec<$G> = (0..5).map(|i| pool[((pat >> (3 * i)) & 7) as usize % 6]).collect();
            <$G>::batch_normalization(&mut v);
            v
        }
        "mul" => {
            let k = scalar_repr(&op["k"]);
            let a = p();
            let mut v = vec![];
            let mut t = a; t.mul_assign(k); v.push(t);
            v.push(a.into_affine().mul(k));
            if k.0[3] >> 63 == 0 {
                let mut ctx = Wnaf::new();
                v.push(ctx.base(a, 3).scalar(k));
                let mut ctx2 = Wnaf::new();
                v.push(ctx2.scalar(k).base(a));
            }
            v
        }
        "msm" => {
            let pts: Vec<$A> = op["points"].as_array().unwrap().iter().map(|x| j_to_aff::<$G>(x)).collect();
            let sc = scalars_of(&op["scalars"]);
            let scr: Vec<&[u64; 4]> = sc.iter().collect();
            let mut v = vec![<$A>::sum_of_products(&pts, &scr)];
            // the bucket method with explicit windows (word-straddling windows among them)
            if let Some(ws) = op.get("windows").and_then(|w| w.as_array()) {
                for w in ws {
                    v.push(<$A>::sum_of_products_pippinger(&pts, &scr, w.as_u64().unwrap() as usize));
                }
            }
            v
        }
        // the precomputation tables are points handed out to the caller as well (and fed back)
        "precomp" => {
            let a = p().into_affine();
            let k = scalar_repr(&op["k"]);
            let filler = <$A>::one();
            let mut pre3 = vec![filler; 3];
            a.precomp_3(&mut pre3);
            let mut pre256 = vec![filler; 256];
            a.precomp_256(&mut pre256);
            let mut v: Vec<$G> = pre3.iter().map(|x| x.into_projective()).collect();
            for i in op["idx"].as_array().unwrap() {
                v.push(pre256[i.as_u64().unwrap() as usize].into_projective());
            }
            v.push(a.mul_precomp_3(k, &pre3));
            v.push(a.mul_precomp_256(k, &pre256));
            v
        }
        "decode" => {
            let bytes = j_to_bytes(&op["bytes"]);
            let r = if op["form"] == "c" {
                let mut e = <<$A as CurveAffine>::Compressed>::empty();
                e.as_mut().copy_from_slice(&bytes);
                e.into_affine()
            } else {
                let mut e = <<$A as CurveAffine>::Uncompressed>::empty();
                e.as_mut().copy_from_slice(&bytes);
                e.into_affine()
            };
            let mut v: Vec<$G> = r.ok().into_iter().map(|a| a.into_projective()).collect();
            // the stream API, both types, whole and chunked readers
            for chunk in [0usize, 5, 48].iter() {
                let mut cur = Cursor::new(bytes.clone());
                let rp = if *chunk == 0 { <$G>::deserialize(&mut cur, op["form"] == "c") }
                         else { <$G>::deserialize(&mut Chunked { inner: &mut cur, chunk: *chunk }, op["form"] == "c") };
                if let Ok(x) = rp {
                    v.push(x);
                }
                let mut cur = Cursor::new(bytes.clone());
                let ra = if *chunk == 0 { <$A>::deserialize(&mut cur, op["form"] == "c") }
                         else { <$A>::deserialize(&mut Chunked { inner: &mut cur, chunk: *chunk }, op["form"] == "c") };
                if let Ok(x) = ra {
                    v.push(x.into_projective());
                }
            }
            v
        }
        "hash" => {
            let msg = j_to_bytes(&op["msg"]);
            let dst = j_to_bytes(&op["dst"]);
            vec![
                <$G as HashToCurve<ExpandMsgXmd<sha2::Sha256>>>::hash_to_curve(&msg, &dst),
                <$G as HashToCurve<ExpandMsgXmd<sha2::Sha256>>>::encode_to_curve(&msg, &dst),
                <$G as HashToCurve<ExpandMsgXof<sha3::Shake128>>>::hash_to_curve(&msg, &dst),
                <$G as HashToCurve<ExpandMsgXof<sha3::Shake128>>>::encode_to_curve(&msg, &dst),
            ]
        }
        "map" => {
            let u0 = <$B>::from_j(&op["u0"]);
            let u1 = <$B>::from_j(&op["u1"]);
            vec![
                <$G as MapToCurve<$G>>::map_to_curve(&u0),
                <$G as MapToCurve<$G>>::map_to_curve(&u1),
                <$G as MapToCurve<$G>>::map2_to_curve(&u0, &u1),
            ]
        }
        "clear_h" => {
            let mut t = p();
            t.clear_h();
            vec![t]
        }
        f => panic!("unknown prod fn {}", f),
    };
    Value::Array(outs.iter().map(|x| proj_to_j(x)).collect())
        }
    };
}
exec_prod_impl!(exec_prod_g1, G1, G1Affine, pairing::bls12_381::Fq);
exec_prod_impl!(exec_prod_g2, G2, G2Affine, pairing::bls12_381::Fq2);


fn xs_rng(seed: u64) -> rand_xorshift::XorShiftRng {
    let mut s = [0u8; 16];
    s[..8].copy_from_slice(&seed.to_le_bytes());
    s[8..].copy_from_slice(&(seed ^ 0x9e3779b97f4a7c15).to_le_bytes());
    rand_xorshift::XorShiftRng::from_seed(s)
}

fn exec_wn<G: Grp>(ctx: &mut Wnaf<(), Vec<G>, Vec<i64>>, op: &Value) -> Value
where
    G: CurveProjective<Scalar = Fr>,
    G::Base: J,
{
    match op["fn"].as_str().unwrap() {
        "new" => {
            *ctx = Wnaf::new();
            json!(true)
        }
        "base_scalars" | "base_shared" => {
            let p = j_to_proj::<G>(&op["p"]);
            let n = nat_to_words(&op["n"], 1).unwrap()[0] as usize;
            let ks = &op["ks"].as_array().unwrap();
            let mut w = ctx.base(p, n);
            let mut outs = vec![];
            if op["fn"] == "base_shared" {
                let mut sh = w.shared();
                for k in ks.iter() {
                    outs.push(proj_to_j(&sh.scalar::<G>(scalar_repr(k))));
                }
            }
            for k in ks.iter() {
                outs.push(proj_to_j(&w.scalar::<G>(scalar_repr(k))));
            }
            Value::Array(outs)
        }
        "scalar_bases" | "scalar_shared" => {
            let k = scalar_repr(&op["k"]);
            let ps = &op["ps"].as_array().unwrap();
            let mut w = ctx.scalar(k);
            let mut outs = vec![];
            if op["fn"] == "scalar_shared" {
                let mut sh = w.shared();
                for p in ps.iter() {
                    outs.push(proj_to_j(&sh.base(j_to_proj::<G>(p))));
                }
            }
            for p in ps.iter() {
                outs.push(proj_to_j(&w.base(j_to_proj::<G>(p))));
            }
            Value::Array(outs)
        }
        f => panic!("unknown wn fn {}", f),
    }
}

/// two decodes that depend on each other's progress: thread A decodes from a reader that blocks until
/// thread B - after its own decode of `b` from memory - delivers A's bytes.  A library that holds a
/// lock (or any other shared resource) while it sits in the caller's reader never finishes this.
fn pipe_decode<T, F>(a: Vec<u8>, b: Vec<u8>, c: bool, show: F) -> Value
where
    T: SerDes + Send + 'static,
    F: Fn(&T) -> Value + Send + Sync + Copy + 'static,
{
    use std::sync::mpsc;
    use std::time::Duration;
    struct ChanRd {
        rx: mpsc::Receiver<Vec<u8>>,
        started: Option<mpsc::Sender<()>>,
        buf: Vec<u8>,
    }
    impl std::io::Read for ChanRd {
        fn read(&mut self, out: &mut [u8]) -> std::io::Result<usize> {
            if let Some(s) = self.started.take() {
                let _ = s.send(());
            }
            if self.buf.is_empty() {
                match self.rx.recv_timeout(Duration::from_secs(6)) {
                    Ok(v) => self.buf = v,
                    Err(_) => return Ok(0),
                }
            }
            let n = std::cmp::min(out.len(), self.buf.len());
            out[..n].copy_from_slice(&self.buf[..n]);
            self.buf.drain(..n);
            Ok(n)
        }
    }
    let (tx_bytes, rx_bytes) = mpsc::channel::<Vec<u8>>();
    let (tx_started, rx_started) = mpsc::channel::<()>();
    let (tx_res, rx_res) = mpsc::channel::<(char, Value)>();
    let n = a.len();
    let ta = tx_res.clone();
    std::thread::spawn(move || {
        let mut rd = ChanRd { rx: rx_bytes, started: Some(tx_started), buf: vec![] };
        let r = T::deserialize(&mut rd, c);
        let v = json!({"ty": "x", "consumed": n, "res": match r { Ok(p) => json!(["ok", show(&p)]), Err(_) => json!(["err"]) }});
        let _ = ta.send(('a', v));
    });
    let tb = tx_res;
    std::thread::spawn(move || {
        let _ = rx_started.recv_timeout(Duration::from_secs(3));
        let mut sl: &[u8] = &b[..];
        let before = sl.len();
        let r = T::deserialize(&mut sl, c);
        let v = json!({"ty": "x", "consumed": before - sl.len(), "res": match r { Ok(p) => json!(["ok", show(&p)]), Err(_) => json!(["err"]) }});
        let _ = tx_bytes.send(a);
        let _ = tb.send(('b', v));
    });
    let mut ra = json!(false);
    let mut rb = json!(false);
    let mut timeout = false;
    for _ in 0..2 {
        match rx_res.recv_timeout(Duration::from_secs(4)) {
            Ok(('a', v)) => ra = v,
            Ok((_, v)) => rb = v,
            Err(_) => { timeout = true; break; }
        }
    }
    json!({"a": ra, "b": rb, "timeout": timeout})
}

/// a sink that accepts at most `chunk` bytes per write call (pipes and sockets do that)
struct ChunkWr {
    buf: Vec<u8>,
    chunk: usize,
}
impl std::io::Write for ChunkWr {
    fn write(&mut self, b: &[u8]) -> std::io::Result<usize> {
        let n = std::cmp::min(b.len(), self.chunk);
        self.buf.extend_from_slice(&b[..n]);
        Ok(n)
    }
    fn flush(&mut self) -> std::io::Result<()> {
        Ok(())
    }
}
fn st_write<T: SerDes>(st: &mut MiscState, v: &T, c: bool) -> Value {
    let before = st.wbuf.len();
    let r = v.serialize(&mut st.wbuf, c);
    let n = st.wbuf.len() - before;
    // the same value into sinks that take the bytes in pieces, and into slices that are too small
    let mut sinks = vec![];
    for chunk in [1usize, 7, 47, 95].iter() {
        let mut w = ChunkWr { buf: vec![], chunk: *chunk };
        let rr = v.serialize(&mut w, c);
        sinks.push(json!({"kind": "chunked", "res": if rr.is_ok() {"ok"} else {"err"}, "bytes": bytes_to_j(&w.buf)}));
    }
    if r.is_ok() && n > 0 {
        for short in [n - 1, n / 2, 0].iter() {
            let mut space = vec![0u8; *short];
            let mut sl: &mut [u8] = &mut space[..];
            let rr = v.serialize(&mut sl, c);
            sinks.push(json!({"kind": "too-small", "res": if rr.is_ok() {"ok"} else {"err"}, "bytes": []}));
        }
    }
    json!({"res": if r.is_ok() {"ok"} else {"err"},
           "bytes": bytes_to_j(&st.wbuf[before..]), "sinks": sinks})
}
/// a reader that hands out at most `chunk` bytes per read call (pipes and sockets do that)
struct Chunked<'a> {
    inner: &'a mut Cursor<Vec<u8>>,
    chunk: usize,
}
impl<'a> std::io::Read for Chunked<'a> {
    fn read(&mut self, buf: &mut [u8]) -> std::io::Result<usize> {
        let n = std::cmp::min(buf.len(), self.chunk);
        self.inner.read(&mut buf[..n])
    }
}

fn st_read<T: SerDes, F: Fn(&T) -> Value>(st: &mut MiscState, c: bool, chunk: usize, show: F) -> Value {
    let before = st.rd.position();
    let r = if chunk == 0 {
        T::deserialize(&mut st.rd, c)
    } else {
        T::deserialize(&mut Chunked { inner: &mut st.rd, chunk }, c)
    };
    let after = st.rd.position();
    json!({"res": match r { Ok(v) => json!(["ok", show(&v)]), Err(_) => json!(["err"]) },
           "consumed": after - before, "pos": after})
}

fn exec_stream(st: &mut MiscState, op: &Value) -> Value {
    let c = op["c"].as_bool().unwrap_or(true);
    let ck = op["chunk"].as_u64().unwrap_or(0) as usize;
    match op["fn"].as_str().unwrap() {
        "reset" => {
            st.wbuf.clear();
            st.rd = Cursor::new(vec![]);
            json!(true)
        }
        // make what was written (optionally truncated / extended) the read buffer
        "flip" => {
            let mut b = st.wbuf.clone();
            if let Some(n) = op["trunc"].as_u64() {
                b.truncate(n as usize);
            }
            if let Some(x) = op.get("append") {
                b.extend_from_slice(&j_to_bytes(x));
            }
            let r = bytes_to_j(&b);
            st.rd = Cursor::new(b);
            r
        }
        "set" => {
            st.rd = Cursor::new(j_to_bytes(&op["bytes"]));
            json!(true)
        }
        "write" => match op["ty"].as_str().unwrap() {
            "Fr" => st_write(st, &Fr::from_j(&op["v"]), c),
            "Fq12" => st_write(st, &Fq12::from_j(&op["v"]), c),
            "G1" => st_write(st, &j_to_proj::<G1>(&op["v"]), c),
            "G2" => st_write(st, &j_to_proj::<G2>(&op["v"]), c),
            "G1Affine" => st_write(st, &g1a(&op["v"]), c),
            "G2Affine" => st_write(st, &g2a(&op["v"]), c),
            t => panic!("unknown type {}", t),
        },
        "read" => match op["ty"].as_str().unwrap() {
            "Fr" => st_read::<Fr, _>(st, c, ck, |v| v.to_j()),
            "Fq12" => st_read::<Fq12, _>(st, c, ck, |v| v.to_j()),
            "G1" => st_read::<G1, _>(st, c, ck, |v| proj_to_j(v)),
            "G2" => st_read::<G2, _>(st, c, ck, |v| proj_to_j(v)),
            "G1Affine" => st_read::<G1Affine, _>(st, c, ck, |v| aff_to_j(v)),
            "G2Affine" => st_read::<G2Affine, _>(st, c, ck, |v| aff_to_j(v)),
            t => panic!("unknown type {}", t),
        },
        f => panic!("unknown stream fn {}", f),
    }
}

pub fn exec_misc(st: &mut MiscState, op: &Value) -> Value {
    let g = op["g"].as_str().unwrap_or("");
    match op["op"].as_str().unwrap() {
        "pipe" => {
            let (a, b) = (j_to_bytes(&op["a"]), j_to_bytes(&op["b"]));
            let c = op["form"] == "c";
            let mut v = match (g, op["kind"].as_str().unwrap()) {
                ("G1", "aff") => pipe_decode::<G1Affine, _>(a, b, c, |p| aff_to_j(p)),
                ("G1", _) => pipe_decode::<G1, _>(a, b, c, |p| proj_to_j(p)),
                ("G2", "aff") => pipe_decode::<G2Affine, _>(a, b, c, |p| aff_to_j(p)),
                _ => pipe_decode::<G2, _>(a, b, c, |p| proj_to_j(p)),
            };
            for k in ["a", "b"].iter() {
                if let Some(o) = v[*k].as_object_mut() {
                    o.insert("ty".into(), op["kind"].clone());
                }
            }
            v
        }
        "decode" => exec_decode(g, op),
        "encode" => match g {
            "G1" => exec_encode_g1(op),
            "G2" => exec_encode_g2(op),
            _ => panic!("bad group"),
        },
        "insub" => match g {
            "G1" => json!(g1a(&op["p"]).in_subgroup()),
            "G2" => json!(g2a(&op["p"]).in_subgroup()),
            _ => panic!("bad group"),
        },
        "prod" => match g {
            "G1" => exec_prod_g1(op),
            "G2" => exec_prod_g2(op),
            _ => panic!("bad group"),
        },
        "random" => {
            let mut rng = xs_rng(nat_to_words(&op["seed"], 1).unwrap()[0]);
            let n = op["n"].as_u64().unwrap_or(1);
            let mut outs = vec![];
            for _ in 0..n {
                outs.push(match g {
                    "G1" => proj_to_j(&G1::random(&mut rng)),
                    "G2" => proj_to_j(&G2::random(&mut rng)),
                    _ => panic!("bad group"),
                });
            }
            Value::Array(outs)
        }
        "swu" | "iso" | "clearh" | "map" | "map2" | "iso_hom" | "swu_pt" => match g {
            "G1" => exec_stage_g1(op),
            "G2" => exec_stage_g2(op),
            _ => panic!("bad group"),
        },
        "pairing" => {
            let (p, q) = (g1a(&op["p"]), g2a(&op["q"]));
            // the same points as non-normalized projective representatives (2P - P)
            let mut pp = p.into_projective();
            pp.double();
            pp.sub_assign_mixed(&p);
            let mut qq = q.into_projective();
            qq.double();
            qq.sub_assign_mixed(&q);
            let prep = Bls12::final_exponentiation(&Bls12::miller_loop([(&p.prepare(), &q.prepare())].iter()));
            json!({"e": Bls12::pairing(p, q).to_j(),
                   "pw": p.pairing_with(&q).to_j(),
                   "qw": q.pairing_with(&p).to_j(),
                   "proj": Bls12::pairing(pp, qq).to_j(),
                   "prep": fq12_opt(prep),
                   "p_prep_zero": p.prepare().is_zero(), "q_prep_zero": q.prepare().is_zero()})
        }
        "bilin" => {
            let (p, q) = (g1a(&op["p"]), g2a(&op["q"]));
            let ap = p.mul(scalar_repr(&op["a"]));
            let bq = q.mul(scalar_repr(&op["b"]));
            json!({"e0": Bls12::pairing(p, q).to_j(),
                   "e1": Bls12::pairing(ap.into_affine(), bq.into_affine()).to_j(),
                   "ap": proj_to_j(&ap), "bq": proj_to_j(&bq)})
        }
        "miller" => {
            let ps: Vec<_> = op["pairs"].as_array().unwrap().iter()
                .map(|x| (g1a(&x[0]).prepare(), g2a(&x[1]).prepare())).collect();
            let refs: Vec<_> = ps.iter().map(|(a, b)| (a, b)).collect();
            let ml = Bls12::miller_loop(refs.iter());
            json!({"ml": ml.to_j(), "fe": fq12_opt(Bls12::final_exponentiation(&ml))})
        }
        // prepared elements built once, reused across several evaluations
        "prep_reuse" => {
            let ps: Vec<_> = op["ps"].as_array().unwrap().iter().map(|x| g1a(x).prepare()).collect();
            let qs: Vec<_> = op["qs"].as_array().unwrap().iter().map(|x| g2a(x).prepare()).collect();
            let mut outs = vec![];
            for l in op["lists"].as_array().unwrap() {
                let refs: Vec<_> = l.as_array().unwrap().iter()
                    .map(|ij| (&ps[ij[0].as_u64().unwrap() as usize], &qs[ij[1].as_u64().unwrap() as usize]))
                    .collect();
                let ml = Bls12::miller_loop(refs.iter());
                outs.push(fq12_opt(Bls12::final_exponentiation(&ml)));
            }
            Value::Array(outs)
        }
        "pprod" => Bls12::pairing_product(g1a(&op["p1"]), g2a(&op["q1"]), g1a(&op["p2"]), g2a(&op["q2"])).to_j(),
        "pmulti" => {
            let ps: Vec<_> = op["ps"].as_array().unwrap().iter().map(g1a).collect();
            let qs: Vec<_> = op["qs"].as_array().unwrap().iter().map(g2a).collect();
            Bls12::pairing_multi_product(&ps, &qs).to_j()
        }
        "ferel" => {
            let f = Fq12::from_j(&op["f"]);
            let g2 = Fq12::from_j(&op["g"]);
            let mut fg = f;
            fg.mul_assign(&g2);
            json!({"fg": fg.to_j(), "ef": fq12_opt(Bls12::final_exponentiation(&f)),
                   "eg": fq12_opt(Bls12::final_exponentiation(&g2)),
                   "efg": fq12_opt(Bls12::final_exponentiation(&fg))})
        }
        // labelled pairs: P_i = [a_i] g1, Q_i = [b_i] g2 (small signed integers)
        "pairl" => {
            let small = |a: i64| -> pairing::bls12_381::FrRepr { pairing::bls12_381::FrRepr::from(a.abs() as u64) };
            let ps: Vec<G1Affine> = op["as"].as_array().unwrap().iter().map(|a| {
                let a = a.as_i64().unwrap();
                let mut p = G1Affine::one().mul(small(a));
                if a < 0 { p.negate(); }
                p.into_affine()
            }).collect();
            let qs: Vec<G2Affine> = op["bs"].as_array().unwrap().iter().map(|b| {
                let b = b.as_i64().unwrap();
                let mut q = G2Affine::one().mul(small(b));
                if b < 0 { q.negate(); }
                q.into_affine()
            }).collect();
            let mut out = serde_json::Map::new();
            out.insert("ps".into(), Value::Array(ps.iter().map(|x| aff_to_j(x)).collect()));
            out.insert("qs".into(), Value::Array(qs.iter().map(|x| aff_to_j(x)).collect()));
            match op["fn"].as_str().unwrap() {
                "miller" => {
                    let prep: Vec<_> = ps.iter().zip(qs.iter()).map(|(p, q)| (p.prepare(), q.prepare())).collect();
                    let refs: Vec<_> = prep.iter().map(|(a, b)| (a, b)).collect();
                    let ml = Bls12::miller_loop(refs.iter());
                    out.insert("fe".into(), fq12_opt(Bls12::final_exponentiation(&ml)));
                    // the same list handed over in other forms of `IntoIterator` (inexact size hints,
                    // a user-defined iterator, the collection itself, adaptors)
                    if op.get("plain").is_none() {
                    struct Plain<'a, T>(&'a [T], usize);
                    impl<'a, T> Iterator for Plain<'a, T> {
                        type Item = &'a T;
                        fn next(&mut self) -> Option<&'a T> {
                            let r = self.0.get(self.1);
                            self.1 += 1;
                            r
                        }
                    }
                    let half = refs.len() / 2;
                    let nested: Vec<Vec<_>> = vec![refs[..half].to_vec(), vec![], refs[half..].to_vec()];
                    let rev: Vec<_> = refs.iter().rev().cloned().collect();
                    let forms = vec![
                        Bls12::miller_loop(refs.iter().filter(|_| true)),
                        Bls12::miller_loop(Plain(&refs, 0)),
                        Bls12::miller_loop(&refs),
                        Bls12::miller_loop(nested.iter().flatten()),
                        Bls12::miller_loop(refs[..half].iter().chain(refs[half..].iter())),
                        Bls12::miller_loop(rev.iter().rev()),
                        Bls12::miller_loop(refs.iter().skip_while(|_| false)),
                    ];
                    out.insert("forms".into(), Value::Array(forms.iter().map(|m| fq12_opt(Bls12::final_exponentiation(m))).collect()));
                    }
                }
                "pmulti" => {
                    out.insert("v".into(), Bls12::pairing_multi_product(&ps, &qs).to_j());
                }
                "pprod" => {
                    out.insert("v".into(), Bls12::pairing_product(ps[0], qs[0], ps[1], qs[1]).to_j());
                }
                "reuse" => {
                    let pp: Vec<_> = ps.iter().map(|x| x.prepare()).collect();
                    let qq: Vec<_> = qs.iter().map(|x| x.prepare()).collect();
                    let mut outs = vec![];
                    for l in op["lists"].as_array().unwrap() {
                        let refs: Vec<_> = l.as_array().unwrap().iter()
                            .map(|ij| (&pp[ij[0].as_u64().unwrap() as usize], &qq[ij[1].as_u64().unwrap() as usize]))
                            .collect();
                        let ml = Bls12::miller_loop(refs.iter());
                        outs.push(fq12_opt(Bls12::final_exponentiation(&ml)));
                    }
                    out.insert("v".into(), Value::Array(outs));
                }
                f => panic!("unknown pairl fn {}", f),
            }
            Value::Object(out)
        }
        // arbitrary pairs: individual pairings, joint Miller loop, slice helper
        "pairr" => {
            let prs: Vec<(G1Affine, G2Affine)> = op["pairs"].as_array().unwrap().iter()
                .map(|x| (g1a(&x[0]), g2a(&x[1]))).collect();
            let each: Vec<Value> = prs.iter().map(|(p, q)| Bls12::pairing(*p, *q).to_j()).collect();
            let prep: Vec<_> = prs.iter().map(|(p, q)| (p.prepare(), q.prepare())).collect();
            let refs: Vec<_> = prep.iter().map(|(a, b)| (a, b)).collect();
            let ml = Bls12::miller_loop(refs.iter());
            let ps: Vec<G1Affine> = prs.iter().map(|x| x.0).collect();
            let qs: Vec<G2Affine> = prs.iter().map(|x| x.1).collect();
            json!({"each": each, "fe": fq12_opt(Bls12::final_exponentiation(&ml)),
                   "multi": Bls12::pairing_multi_product(&ps, &qs).to_j()})
        }
        "finalexp" => fq12_opt(Bls12::final_exponentiation(&Fq12::from_j(&op["f"]))),
        "st" => exec_stream(st, op),
        "wn" => match g {
            "G1" => exec_wn::<G1>(&mut st.wn1, op),
            "G2" => exec_wn::<G2>(&mut st.wn2, op),
            _ => panic!("bad group"),
        },
        "wnrec" => {
            let r = match (g, op["fn"].as_str().unwrap()) {
                ("G1", "scalar") => G1::recommended_wnaf_for_scalar(scalar_repr(&op["k"])),
                ("G2", "scalar") => G2::recommended_wnaf_for_scalar(scalar_repr(&op["k"])),
                ("G1", "num") => G1::recommended_wnaf_for_num_scalars(nat_to_words(&op["n"], 1).unwrap()[0] as usize),
                ("G2", "num") => G2::recommended_wnaf_for_num_scalars(nat_to_words(&op["n"], 1).unwrap()[0] as usize),
                _ => panic!("bad wnrec"),
            };
            json!(r)
        }
        "pipwin" => {
            let n = nat_to_words(&op["n"], 1).unwrap()[0] as usize;
            match g {
                "G1" => json!([G1Affine::find_pippinger_window(n), G1Affine::find_pippinger_window_via_estimate(n)]),
                "G2" => json!([G2Affine::find_pippinger_window(n), G2Affine::find_pippinger_window_via_estimate(n)]),
                _ => panic!("bad group"),
            }
        }
        "field_random" => {
            let mut rng = xs_rng(nat_to_words(&op["seed"], 1).unwrap()[0]);
            match op["f"].as_str().unwrap() {
                "Fq" => pairing::bls12_381::Fq::random(&mut rng).to_j(),
                "Fr" => Fr::random(&mut rng).to_j(),
                _ => panic!("bad field"),
            }
        }
        x => panic!("unknown op {}", x),
    }
}

#[allow(dead_code)]
fn _unused(_: &[[u64; 4]]) {
    let _ = scalars_of;
    let _ = Fr::char();
}
