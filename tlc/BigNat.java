// TLC module override for BigNat.tla: the operators below have the same
// meaning as their TLA+ definitions (which stay authoritative and are
// cross-checked by `check selfmath`), implemented with java.math.BigInteger.
//
// A natural is a TLA+ tuple of 16-bit limbs, little-endian, no trailing zero.
import java.math.BigInteger;
import tlc2.value.impl.IntValue;
import tlc2.value.impl.TupleValue;
import tlc2.value.impl.Value;

public class BigNat {
    private static final BigInteger MASK = BigInteger.valueOf(0xffff);

    static BigInteger big(final Value v) {
        final TupleValue tv = (TupleValue) v.toTuple();
        if (tv == null) {
            throw new RuntimeException("BigNat: not a tuple: " + v);
        }
        final Value[] e = tv.elems;
        final int n = e.length;
        if (n == 0) {
            return BigInteger.ZERO;
        }
        // big-endian magnitude bytes
        final byte[] mag = new byte[2 * n];
        for (int i = 0; i < n; i++) {
            final int limb = ((IntValue) e[i]).val;
            if (limb < 0 || limb > 0xffff) {
                throw new RuntimeException("BigNat: limb out of range: " + limb);
            }
            mag[2 * (n - 1 - i)] = (byte) (limb >>> 8);
            mag[2 * (n - 1 - i) + 1] = (byte) limb;
        }
        return new BigInteger(1, mag);
    }

    static Value val(final BigInteger b) {
        if (b.signum() < 0) {
            throw new RuntimeException("BigNat: negative result");
        }
        if (b.signum() == 0) {
            return new TupleValue(new Value[0]);
        }
        final byte[] mag = b.toByteArray(); // big-endian two's complement, maybe leading 0
        int start = 0;
        while (start < mag.length && mag[start] == 0) {
            start++;
        }
        final int nbytes = mag.length - start;
        final int n = (nbytes + 1) / 2;
        final Value[] e = new Value[n];
        for (int i = 0; i < n; i++) {
            final int loIdx = mag.length - 1 - 2 * i;
            final int hiIdx = loIdx - 1;
            final int lo = mag[loIdx] & 0xff;
            final int hi = hiIdx >= start ? (mag[hiIdx] & 0xff) : 0;
            e[i] = IntValue.gen((hi << 8) | lo);
        }
        return new TupleValue(e);
    }

    static int small(final Value v) {
        return ((IntValue) v).val;
    }

    public static Value Add(final Value a, final Value b) {
        return val(big(a).add(big(b)));
    }

    public static Value Sub(final Value a, final Value b) {
        final BigInteger x = big(a), y = big(b);
        return x.compareTo(y) < 0 ? val(BigInteger.ZERO) : val(x.subtract(y));
    }

    public static Value Mul(final Value a, final Value b) {
        return val(big(a).multiply(big(b)));
    }

    public static Value Div(final Value a, final Value m) {
        return val(big(a).divide(big(m)));
    }

    public static Value Rem(final Value a, final Value m) {
        return val(big(a).mod(big(m)));
    }

    public static Value Cmp(final Value a, final Value b) {
        return IntValue.gen(big(a).compareTo(big(b)));
    }

    public static Value MulMod(final Value a, final Value b, final Value m) {
        return val(big(a).multiply(big(b)).mod(big(m)));
    }

    public static Value AddMod(final Value a, final Value b, final Value m) {
        return val(big(a).add(big(b)).mod(big(m)));
    }

    public static Value SubMod(final Value a, final Value b, final Value m) {
        final BigInteger x = big(a), y = big(b);
        return x.compareTo(y) >= 0 ? val(x.subtract(y)) : val(x.add(big(m)).subtract(y));
    }

    public static Value PowMod(final Value a, final Value e, final Value m) {
        return val(big(a).modPow(big(e), big(m)));
    }

    public static Value InvMod(final Value a, final Value m) {
        // same meaning as the definition a^(m-2) mod m (m prime): 0 for a = 0 mod m
        final BigInteger mm = big(m);
        return val(big(a).modPow(mm.subtract(BigInteger.TWO), mm));
    }

    public static Value NumBits(final Value a) {
        return IntValue.gen(big(a).bitLength());
    }

    public static Value Bit(final Value a, final Value i) {
        return IntValue.gen(big(a).testBit(small(i)) ? 1 : 0);
    }

    public static Value ShiftL(final Value a, final Value k) {
        return val(big(a).shiftLeft(small(k)));
    }

    public static Value ShiftR(final Value a, final Value k) {
        return val(big(a).shiftRight(small(k)));
    }

    public static Value LowBits(final Value a, final Value k) {
        final BigInteger mask = BigInteger.ONE.shiftLeft(small(k)).subtract(BigInteger.ONE);
        return val(big(a).and(mask));
    }

    public static Value Pow2(final Value k) {
        return val(BigInteger.ONE.shiftLeft(small(k)));
    }

    public static Value FromBytesBE(final Value bs) {
        final TupleValue tv = (TupleValue) bs.toTuple();
        final byte[] mag = new byte[tv.elems.length];
        for (int i = 0; i < mag.length; i++) {
            mag[i] = (byte) ((IntValue) tv.elems[i]).val;
        }
        return val(new BigInteger(1, mag));
    }

    public static Value ToBytesBE(final Value a, final Value len) {
        final int n = small(len);
        final BigInteger x = big(a);
        final Value[] e = new Value[n];
        for (int j = 0; j < n; j++) {
            // byte k = n-1-j (0 = least significant)
            final int k = n - 1 - j;
            e[j] = IntValue.gen(x.shiftRight(8 * k).and(BigInteger.valueOf(0xff)).intValue());
        }
        return new TupleValue(e);
    }
}
